"""Per-property unit tables: which obligations decide which property.

Each Kani entry: name (exact harness path), fn (real function under contract),
contract (what the obligation states), lane (K in place / KX region / B bounded),
bound (text; None = complete for all inputs of the stated types), tier,
finding (id in known_findings.txt when the full-domain obligation is expected to fail).
"""
import os, re

PROPS = {}


def H(mod, name, fn, contract, lane="K", bound=None, tier="quick", finding=None):
    return {"name": f"{mod}::verif_kani::{name}", "fn": fn, "contract": contract, "lane": lane, "bound": bound, "tier": tier, "finding": finding}


def V(unit, fn, contract, twin=None, tier="quick", timeout=600):
    return {"unit": unit, "fn": fn, "contract": contract, "twin": twin, "tier": tier, "timeout": timeout}


# ------------------------------------------------------------------ C05
RGP = "storage::row_group_pruning"
PROPS["C05"] = {
    "files": ["kani/row_group_pruning.rs"],
    "level": "proof",
    "explanation": "Soundness of min/max skipping as contracts on the real functions of src/storage/row_group_pruning.rs: "
                   "for every row value consistent with the statistics, if the comparison holds for that row the function must answer 'might match'; "
                   "a 'definitely matches' answer must imply null_count == 0 and that the comparison holds for every consistent value. "
                   "Leaves (eval_range*) carry in-place Kani contracts; check_*_stats are verified against those contracts (stub_verified); "
                   "the logic of check_comparison / definite_comparison is verified as verbatim regions (KX); the AND/OR/NOT/BETWEEN/IN combinators "
                   "are verified as an inductive step against the callee contracts of the recursive calls.",
    "kani": [
        H(RGP, "c05_l1_lemma_closed_form_i64", "spec lemma", "exists x in [min,max] with x op val  ==>  may_hold_i64(op,val,min,max) (closed form used in the in-place contract)"),
        H(RGP, "c05_l1_lemma_closed_form_f64", "spec lemma", "same for doubles outside the NaN/signed-zero class"),
        H(RGP, "c05_l1_eval_range_contract", "eval_range", "in-place ensures: result || !may_hold_i64(op,val,min,max), all i64^3 x all operators"),
        H(RGP, "c05_l1_eval_range_i32_contract", "eval_range_i32", "in-place ensures: result || !may_hold_i32(..), all inputs"),
        H(RGP, "c05_l1_eval_range_f64_contract", "eval_range_f64", "in-place ensures: result || !may_hold_f64(..), all bit patterns"),
        H(RGP, "c05_l1_eval_range_str_sound_b2", "eval_range_str", "min<=x<=max && x op val ==> true", lane="B", bound="strings of <= 2 ASCII bytes"),
        H(RGP, "c05_l2_check_i64_stats_int64col", "check_i64_stats", "Int64 stats (min/max/null_count optional) consistent with x, x op val ==> true; callee eval_range by contract"),
        H(RGP, "c05_l2_check_i64_stats_int32col", "check_i64_stats", "Int32 stats widened losslessly; x op val ==> true"),
        H(RGP, "c05_l2_check_i32_stats_int32col", "check_i32_stats", "Int32 stats, i32 literal; x op val ==> true"),
        H(RGP, "c05_l2_check_i32_stats_int64col", "check_i32_stats", "Int64 stats, i32 literal compared as integers; x op val ==> true"),
        H(RGP, "c05_l2_check_f64_stats_double", "check_f64_stats", "Double stats, all doubles incl. NaN and signed zeros, interpreter (total) order", finding="D6"),
        H(RGP, "c05_l2_check_f64_stats_double__excluding_known", "check_f64_stats", "Double stats, outside class D6 (x or literal NaN, or both zero)"),
        H(RGP, "c05_l2_check_f64_stats_float__excluding_known", "check_f64_stats", "Float stats widened to f64, outside D6"),
        H(RGP, "c05_l2_mismatched_stats_conservative", "check_*_stats", "statistics of another physical type are never pruned on"),
        H(RGP, "c05_l4_flip_op", "flip_op", "a op b == b flip(op) a for all comparison operators; other operators unchanged"),
        H(RGP, "c05_l3_definite_int_int", "definite_comparison (region)", "true ==> null_count==Some(0) && comparison holds for every x in [min,max]; integer stats x integer literal, exact integer order, both orientations", lane="KX"),
        H(RGP, "c05_l3_definite_f64_f64", "definite_comparison (region)", "same, Double stats x Float64 literal, all doubles", lane="KX", finding="D6"),
        H(RGP, "c05_l3_definite_f64_f64__excluding_known", "definite_comparison (region)", "same, outside D6", lane="KX"),
        H(RGP, "c05_l3_definite_mixed__excluding_known", "definite_comparison (region)", "integer stats x double literal and double stats x integer literal (compared after `as f64`, as the interpreter coerces)", lane="KX"),
        H(RGP, "c05_l3_definite_unsupported_is_false", "definite_comparison (region)", "unsupported stats/literal types, missing null count ==> false", lane="KX"),
        H(RGP, "c05_l4_check_comparison_int_int", "check_comparison (region)", "dispatch literal-type x stats-type with flip; x op val ==> true", lane="KX"),
        H(RGP, "c05_l4_check_comparison_f64__excluding_known", "check_comparison (region)", "Double/Float stats x Float64/Float32 literal, outside D6", lane="KX"),
        H(RGP, "c05_l4_check_comparison_conservative", "check_comparison (region)", "unsupported literal or non-comparison operator ==> true", lane="KX"),
        H(RGP, "c05_l4_dispatch_int64", "check_comparison (region, callees by contract)", "Int64 literal, either side: asks check_i64_stats about the column-side operator (mirrored when the literal is on the left)", lane="KX"),
        H(RGP, "c05_l4_dispatch_timestamp", "check_comparison (region, callees by contract)", "Timestamp literal -> check_i64_stats, mirrored operator", lane="KX"),
        H(RGP, "c05_l4_dispatch_int32", "check_comparison (region, callees by contract)", "Int32 literal -> check_i32_stats, mirrored operator", lane="KX"),
        H(RGP, "c05_l4_dispatch_date32", "check_comparison (region, callees by contract)", "Date32 literal -> check_i32_stats, mirrored operator", lane="KX"),
        H(RGP, "c05_l4_dispatch_float64", "check_comparison (region, callees by contract)", "Float64 literal -> check_f64_stats, mirrored operator", lane="KX"),
        H(RGP, "c05_l4_dispatch_float32", "check_comparison (region, callees by contract)", "Float32 literal -> check_f64_stats, mirrored operator", lane="KX"),
        H(RGP, "c05_l4_dispatch_utf8", "check_comparison (region, callees by contract)", "Utf8 literal -> check_utf8_stats, mirrored operator", lane="KX"),
        H(RGP, "c05_l2_check_utf8_stats_b1", "check_utf8_stats", "ByteArray stats consistent with the row's string and x op val ==> true (byte order)", lane="B", bound="1-byte strings"),
        H(RGP, "c05_l5_step_binary", "row_group_might_match / row_group_definitely_matches (whole bodies)", "inductive step for AND / OR / comparison at the root, all 3VL truth values of the operands: tv==T ==> might; definitely ==> tv==T; callees by contract", lane="KX"),
        H(RGP, "c05_l5_step_not", "row_group_might_match / row_group_definitely_matches (whole bodies)", "inductive step for NOT: e FALSE for a row ==> might(NOT e); definitely(NOT e) never claimed", lane="KX"),
        H(RGP, "c05_l5_step_between", "row_group_might_match / row_group_definitely_matches (whole bodies, carrier Expr)", "inductive step for [NOT] BETWEEN from the contracts of the two generated comparisons", lane="KX"),
        H(RGP, "c05_l5_step_in_list", "row_group_might_match / row_group_definitely_matches (whole bodies, carrier Expr)", "inductive step for [NOT] IN from the contracts of the generated equalities", lane="KX", bound="IN-list length <= 2 (the `any` loop)"),
        H(RGP, "c05_l5_other_kinds_conservative", "row_group_might_match / row_group_definitely_matches (whole bodies, carrier Expr)", "every other expression kind: might == true, definitely == false", lane="KX"),
        H(RGP, "c05_l6_prune_row_groups", "prune_row_groups (whole body)", "result ascending, in range, contains every row group with a matching row; no predicate ==> all indices", lane="KX", bound="<= 3 row groups (the filter/collect loop)"),
    ],
    "trusted_base": [
        "Parquet writer statistics are sound for the file (min <= v <= max in IEEE order for non-NaN v; null_count exact) - assumption of the property itself",
        "interpreter comparison semantics = arrow ArrowNativeTypeOp (the harness calls the real arrow functions as oracle)",
    ],
    "not_under_contract": ["column lookup by name and RowGroupMetaData accessors inside check_comparison/definite_comparison", "call sites that decide when to prune (morsel.rs, parquet.rs, shard.rs)"],
    "technique": "Kani function contracts in place on the real functions (proof_for_contract + stub_verified), Kani on verbatim regions of real functions, inductive step for the recursive combinators",
    "level_text": "Deductive: every obligation is discharged by CBMC for all inputs of the stated machine types (loop-free code, full-domain symbolic inputs), so soundness of skipping holds for every row group and literal, not for sampled ones; string ranges are a bounded stand-in (2 bytes) and labelled so.",
    "level_note": "Trusted: Kani/CBMC; Parquet writer statistics sound for the file; interpreter order = arrow ArrowNativeTypeOp (called as oracle); metadata plumbing outside the extracted regions. Known finding D6 (NaN / signed zero) excluded by class.",
}

# ------------------------------------------------------------------ C11
SPL0 = "distributed::splits"
PROPS["C11"] = {
    "files": ["verus/c11_pass1.vrs", "verus/c11_pass2.vrs", "kani/splits.rs"],
    "level": "proof",
    "explanation": "enumerate_parquet's pass 2 (the outer loop over the row-group inventory and the equal-row cutting loop) is extracted from the real source on every run "
                   "and verified by Verus for every inventory and every target size: each row group is tiled by contiguous ranges from 0 with >= 1 row each, rows and bytes summing exactly.",
    "kani": [
        H(SPL0, "c11_s1_target_split_bytes", "target_split_bytes", "1 <= r <= MAX_SPLIT_BYTES, no overflow, no division by zero; all total_bytes, nodes <= 2^32 (r >= 1 is the cutting loop's precondition)"),
        H(SPL0, "c11_s1_target_split_bytes_floor", "target_split_bytes", "r < MIN_SPLIT_BYTES only if r*nodes >= total (one split per node is already smaller); nodes in 1..=64", tier="thorough"),
        H(SPL0, "c11_s6_digest_step_is_invertible_form", "SplitSet::digest (byte-loop body region)", "the step is h -> (h ^ b) * P with P odd and P * PINV == 1 mod 2^64, i.e. a bijection in h and injective in b", lane="KX"),
        H(SPL0, "c11_s6_digest_empty_set", "SplitSet::digest (whole body, carrier self)", "empty split set: digest == FNV(table name)", lane="KX"),
        H(SPL0, "c11_s6_digest_is_fnv_of_canonical_stream", "SplitSet::digest (whole body, carrier self)", "digest == FNV-1a(table ++ file ++ row_group LE ++ row_offset LE ++ num_rows LE ++ bytes LE): exactly the canonical fields in this order, nothing else", lane="KX", bound="1 split, 1-byte names", tier="thorough"),
        H(SPL0, "c11_s5_canonical_key_fields", "Split::canonical_key", "key == (table, file, row_group, row_offset): equal keys <=> same row range of the same (table,file); ignores path/num_rows/bytes; ordering lexicographic"),
    ],
    "verus": [
        V("c11_pass1", "enumerate_parquet (pass 1: body of `for (index, rg) in meta.row_groups()..`)",
          "one row group of one footer, from an arbitrary inventory satisfying the pass-1 invariant: rows <= 0 changes nothing; otherwise exactly one entry (index, rows, max(bytes,0)) is appended and both running totals grow by it; the invariant (only non-empty row groups, totals == sums) is preserved - these are pass 2's preconditions"),
        V("c11_pass2", "enumerate_parquet (pass 2: `let mut splits` .. end of `for rg in &inventory`)",
          "for all inventories with rows>=1 and target>=1: exists marks. every row group g is tiled exactly by splits[marks[g]..marks[g+1]] "
          "(contiguous from offset 0, each >=1 row, sum rows == rg.rows, sum bytes == rg.bytes exactly, row_group index preserved); totals equal inventory totals; no overflow"),
    ],
    "trusted_base": [
        "u64::div_ceil: only its panic condition (b > 0) is specified; nothing is assumed about its result",
        "digest sensitivity: 'a change at one position of the canonical stream changes the digest' follows from the verified step form by the ring argument over Z/2^64 (pen and paper); no 64-bit digest can separate ALL contents (pigeonhole)",
        "carrier for SplitSet/Split in the digest body: exactly the fields the body reads; String as a short byte carrier",
    ],
    "not_under_contract": ["cached_metadata returns the file's real footer (C19)", "pass 1's file loop (footer I/O, canonical file ordering)", "file_key (std Path machinery is beyond CBMC's budget): basenames are assumed pairwise distinct; two files with the same basename in different directories get identical canonical keys (observation D8, not checked)",
                           "the final sort_by over canonical keys (std sort)"],
    "technique": "Verus loop invariants on the cutting loops extracted mechanically from enumerate_parquet; Kani contracts (all inputs) on target_split_bytes, digest step and canonical keys",
    "level_text": "Deductive and unbounded: Verus proves the tiling/sum postconditions of pass 2 for every inventory size, row count, byte size and target; loop-free helpers are proved by Kani for all inputs.",
    "level_note": "Trusted: Verus/Z3, Kani/CBMC; extraction rewrites R1 (dropped String/PathBuf fields), R2 (continue), R5 (indexed iteration), R3 (u64::div_ceil spec, cross-checked by Kani); footer contents are the file's.",
}

# ------------------------------------------------------------------ C33
MEM = "execution::memory"
PROPS["C33"] = {
    "files": ["verus/c33_pool.vrs", "kani/memory.rs"],
    "level": "proof",
    "explanation": "Concurrency by reduction to atomic steps. Verus (bodies of try_allocate/allocate/used/available/release/resize/Drop::drop copied verbatim, AtomicUsize as a carrier whose "
                   "contracts are the interference model: loads return anything, CAS may fail arbitrarily, every atomic write has a call-site precondition) proves that each method can only issue the "
                   "atomic writes its contract permits: try_allocate only a CAS c -> c+size with c+size <= max_memory and no wrap (the grant condition holds at the linearisation point, no TOCTOU), "
                   "allocate only fetch_add(size), release/drop only fetch_sub(self.size), resize only the signed difference. Kani proves on the real atomics, from an arbitrary pool state, "
                   "that each method's net effect is used' = used +- size (inductive step of J: used == sum of live reservations) and that a life cycle returns used to its start.",
    "kani": [
        H(MEM, "c33_k_try_allocate_step", "MemoryPool::try_allocate", "from any (used,max): Some iff used+size <= max without wrap, then used'=used+size and reservation.size==size; None leaves used unchanged"),
        H(MEM, "c33_k_allocate_step", "MemoryPool::allocate", "used' = used + size; reservation.size == size"),
        H(MEM, "c33_k_drop_step", "MemoryReservation::drop / MemoryPool::release", "used' = used - size exactly once (pre: used >= size, from J)"),
        H(MEM, "c33_k_resize_step", "MemoryReservation::resize", "used' = used - old + new; size' = new"),
        H(MEM, "c33_k_reads", "MemoryPool::{used,max,available}", "pure reads; available == max.saturating_sub(used)"),
        H(MEM, "c33_k_lifecycle_returns_to_start", "try_allocate -> resize -> allocate -> drop -> drop", "used returns to its initial value; intermediate values are the sums of live reservations"),
    ],
    "verus": [
        V("c33_pool", "MemoryPool::{try_allocate,allocate,used,available,release}, MemoryReservation::{resize,drop}",
          "under arbitrary interference each method issues only the atomic writes its contract permits (CAS c->c+size<=max for try_allocate; fetch_add(size); fetch_sub(size); signed difference for resize); Some(r) ==> r.size == size",
          twin=[f"{MEM}::verif_kani::c33_k_try_allocate_step", f"{MEM}::verif_kani::c33_k_resize_step", f"{MEM}::verif_kani::c33_k_drop_step", f"{MEM}::verif_kani::c33_k_allocate_step"]),
    ],
    "trusted_base": [
        "carrier contracts on std::sync::atomic::AtomicUsize (R6): atomics are linearizable SeqCst RMWs; a successful compare_exchange_weak means the cell held `current` and now holds `new`",
        "R1: field `spilled` of MemoryPool dropped (independent counter)",
        "composition (pen and paper): every step preserves J at its linearisation point; straight-line methods issue the same writes under any interleaving and fetch_add/fetch_sub commute",
    ],
    "not_under_contract": ["memory orderings weaker than atomicity", "termination of the CAS loop (lock-free, not wait-free)", "record_spill/spilled"],
    "assumptions": ["atomics are linearizable (SeqCst read-modify-write)"],
    "technique": "Verus on the verbatim method bodies with atomics as a carrier type (call-site preconditions on every atomic write = linearisation-point argument) + Kani inductive steps on the real atomics",
    "level_text": "Deductive for every interleaving by reduction: no schedule is enumerated; each method is proved, for all stale loads and failing CASes, to issue only justified atomic writes, and each write's net effect is proved for all pool states.",
    "level_note": "Trusted: Verus/Z3, Kani/CBMC; the carrier contracts of AtomicUsize (atomicity, CAS success semantics); the composition argument over steps is pen and paper.",
}

# ------------------------------------------------------------------ C12
SPL = "distributed::splits"
PROPS["C12"] = {
    "files": ["verus/c12_lpt.vrs", "kani/splits.rs"],
    "level": "proof",
    "explanation": "The greedy loop of assign_lpt (outer loop over the processing order, inner least-loaded scan, the three updates) is copied from the real source and verified by Verus for every "
                   "split multiset, order and node count: each index is owned exactly as often as it occurs in the order (a partition when the order is a permutation), per-node byte and row "
                   "totals are the sums of what each node owns, totals are conserved, the chosen node is a least-loaded one, and max load <= total/N + largest split (list-scheduling bound). "
                   "Determinism: the loop is a function of (splits, order, nodes) with no hidden state.",
    "kani": [
    ],
    "verus": [
        V("c12_lpt", "assign_lpt (greedy loop: `for idx in order` with the inner `for n in 1..nodes`)",
          "partition by counting (cnt_all(per_node) == cnt(order) for every index), node_bytes[k] == sum bytes, node_rows[k] == sum rows over per_node[k], conservation of both totals, "
          "least-loaded choice, N*node_bytes[k] <= total + N*maxb; no overflow under total bytes <= u64::MAX and total rows <= i64::MAX",
          ),
    ],
    "trusted_base": ["Graham 1969: (4/3 - 1/(3N)) * OPT for LPT order is cited, not machine-checked; the list-scheduling bound total/N + max is proved"],
    "not_under_contract": ["the two sorts (processing order, per-node canonical order), the vec! initialisers and the Assignment glue: a bounded whole-function Kani harness (2 splits, <= 2 nodes) was built (kani/splits.rs: c12_b_assign_lpt_whole) but exceeds 20 min / 9 GB in CBMC (String keys in the sort comparators), so it is not part of any tier", "Assignment::imbalance (f64)"],
    "technique": "Verus loop invariants on the greedy loop extracted mechanically from assign_lpt; bounded Kani harness on the whole function for the cut sorts and glue",
    "level_text": "Deductive and unbounded for the partition, sums, conservation and list-scheduling bound (all split multisets, all node counts); the LPT ratio itself is the cited theorem about the algorithm the code is proved to be.",
    "level_note": "Trusted: Verus/Z3; rewrites R4 (vec! initialisers become parameters), R5 (indexed iteration), R1; Graham's bound cited.",
}

# ------------------------------------------------------------------ C13
PROPS["C13"] = {
    "files": ["verus/c13_read_split.vrs", "verus/c11_pass2.vrs", "verus/c12_lpt.vrs"],
    "level": "proof",
    "explanation": "By composition of contracts: (i) the splits of a table tile every non-empty row group exactly (C11 unit c11_pass2), (ii) every split is owned by exactly one node (C12 unit c12_lpt), "
                   "(iii) read_split's range check and RowSelection construction (copied verbatim, arrow-rs RowSelector as a carrier with its documented meaning) return Err iff the split exceeds the "
                   "row group and otherwise read EXACTLY rows [row_offset, row_offset+num_rows) - for a whole-row-group split by building no selection at all. The union over nodes and splits is then "
                   "every row exactly once (pen and paper).",
    "kani": [],
    "verus": [
        V("c13_read_split", "ShardedParquetTable::read_split (range check + selector region), Split::is_whole_row_group",
          "Err iff row_offset+num_rows > rg_rows; Ok(builder) ==> for every row of the row group: read <==> row_offset <= row < row_offset+num_rows; is_whole_row_group == (row_offset==0 && num_rows==rows)"),
        V("c11_pass2", "enumerate_parquet (pass 2)", "every row group tiled exactly (see C11)"),
        V("c12_lpt", "assign_lpt (greedy loop)", "every split owned by exactly one node (see C12)"),
    ],
    "trusted_base": [
        "arrow-rs reads exactly the rows a RowSelection selects (skip/select run lengths; rows after the last run not selected); a builder without a selection reads the whole row group",
        "cached_reader_builder returns the file's footer",
        "composition over nodes/splits is pen and paper (DESIGN.md section 5, C13)",
    ],
    "not_under_contract": ["projection, the decoder RowFilter and statistics pruning inside read_split (C05 decides pruning)", "the async scan wrapper and rayon fan-out in scan_impl"],
    "technique": "Verus on the verbatim range-check / RowSelection region of read_split with arrow-rs selectors as a carrier type, composed with the C11 tiling and C12 partition contracts",
    "level_text": "Deductive and unbounded for the three facts the repository contributes (tiling, single ownership, exact row range per split); their composition into 'every row exactly once' is a short pen-and-paper argument.",
    "level_note": "Trusted: Verus/Z3; carrier contracts for arrow-rs RowSelector/RowSelection/reader builder; R7 (error payload replaced by unit, condition verbatim); Parquet I/O itself is outside any verifier.",
}

# ------------------------------------------------------------------ C25
SPL = "physical::operators::spillable"
PROPS["C25"] = {
    "files": ["verus/c25_limit.vrs", "verus/c25_spilled_fetch.vrs", "verus/c25_compare_rows.vrs", "kani/spillable.rs", "kani/sort.rs", "kani/inc/sort_carriers.rs"],
    "level": "proof",
    "explanation": "LIMIT/OFFSET arithmetic: LimitState::take_from and satisfied are copied verbatim and verified by Verus with RecordBatch as a carrier (num_rows, slice). With ghost `consumed` = input rows "
                   "seen so far, the counters satisfy skipped = min(consumed, skip), fetched = clamp(consumed - skip, 0, fetch), and the emitted batch is EXACTLY input rows "
                   "[max(consumed,skip), min(consumed+n, skip+fetch)) - so by induction over batches the output is rows skip+1..skip+fetch of the input order for every batch split, "
                   "including fetch = 0, skip beyond the input and fetch = None. "
                   "Spilled sort (ExternalSortExec): three verbatim regions of spillable.rs are compiled against carriers and checked by Kani - the merge comparator closure (must be the order "
                   "sort_batch sorted the runs in: direction and NULLS FIRST/LAST per key), the spilled branch of execute (must apply the fetch the planner's Sort+Limit fusion hands it), "
                   "and one step of the k-way merge loop as an inductive step (queued output rows must keep pointing at the rows that were chosen). Both sort_batch functions (sort.rs: full sort and fused top-k; "
                   "spillable.rs: every spilled run) are compiled whole against carriers that record what Arrow's lexsort is asked for: one column per key in key order with the key's direction, NULL placement and the fetch as limit. "
                   "The three merge obligations failed on the pinned tree "
                   "(defects D10, D11, D15, repaired by fix: commits) and hold now.",
    "kani": [
        H("physical::operators::sort", "sort_c::c25_kx_sort_batch_asks_arrow_for_the_stated_order", "sort::sort_batch (whole body; the full sort and the fused top-k of SortExec)", "Arrow's lexsort is asked for one sort column per ORDER BY key, in key order, evaluated from that key's expression, descending exactly for DESC, nulls_first exactly for NULLS FIRST, limit == fetch; every output column is the input column taken with those indices, in column order; an empty batch is returned as it is", lane="B", bound="<= 3 sort keys, <= 3 columns (every direction x NULL placement, every fetch, every row count)"),
        H("physical::operators::sort", "bind_c::c25_kx_bind_order_by_direction_and_null_placement", "Binder::bind_order_by (direction / NULL-placement region through the SortExpr construction)", "DESC exactly when written (default ASC); NULLS FIRST exactly when written (default LAST); the bound key expression is the one stored; all nine option combinations (loop-free, full domain)", lane="KX"),
        H("physical::operators::sort", "fuse_c::c25_kx_limit_arm_means_limit_offset", "PhysicalPlanner::create_physical_plan_inner (the LogicalPlan::Limit arm, Sort+Limit fusion)", "the operator built for LIMIT n OFFSET m is LimitExec(m, n) over the child's plan, or a sort-with-fetch only when m == 0, fetch == Some(n), the child is a Sort node, its keys are used and the sort sits over the Sort's child; all skip / fetch values, spillable or not (loop-free, full domain)", lane="KX"),
        H(SPL, "sortb_c::c25_kx_run_sort_batch_asks_arrow_for_the_stated_order", "spillable::sort_batch (whole body; sorts every spilled run)", "same request for every run, without a limit", lane="B", bound="<= 3 sort keys, <= 3 columns"),
        H(SPL, "rows_c::c25_kx_compare_key_is_key_order", "streaming_k_way_merge::compare_rows (body of the per-key loop)", "for one sort key, every direction x NULL placement x cell state: a non-Equal result is the key's run order, Equal exactly on ties (loop-free, full domain)", lane="KX"),
        H(SPL, "rows_c::c25_kx_compare_rows_is_run_order", "streaming_k_way_merge::compare_rows (closure body)", "lexicographic over the keys with each key's direction and NULL placement = the order sort_batch gave the runs (make_comparator by Arrow's contract)", lane="B", bound="<= 2 sort keys"),
        H(SPL, "rows_c::c25_kx_compare_rows_is_run_order_k3", "streaming_k_way_merge::compare_rows (closure body)", "same, up to three sort keys", lane="B", bound="<= 3 sort keys", tier="thorough"),
        H(SPL, "fetch_c::c25_kx_spilled_result_honours_fetch_3batches", "ExternalSortExec::execute (spilled branch)", "same, merged rows in up to three batches (every pair of split points)", lane="B", bound="<= 3 runs, <= 3 batches", tier="thorough"),
        H(SPL, "merge_c::c25_kx_merge_step_keeps_pending_rows_b3", "streaming_k_way_merge (loop step after the minimum is chosen)", "same inductive step, up to three queued rows", lane="B", bound="2 runs, <= 3 pending rows", tier="thorough"),
        H(SPL, "fetch_c::c25_kx_spilled_result_honours_fetch", "ExternalSortExec::execute (spilled branch)", "output rows == rows [0, min(fetch,total)) of the merged order, contiguous and in order; slice preconditions met; no overflow", lane="B", bound="<= 3 runs, merged rows in <= 2 batches (every split point, every row count)"),
        H(SPL, "merge_c::c25_kx_merge_step_keeps_pending_rows_b2", "streaming_k_way_merge (loop step after the minimum is chosen)", "inductive step from an arbitrary state: materialized rows ++ pending rows (read through the CURRENT buffers) == old pending rows ++ [chosen row]; every pending row indexes a live buffer below its cursor; the step never fails", lane="B", bound="2 runs, <= 2 pending rows (every buffer size, cursor, flush threshold, reader state)"),
    ],
    "verus": [
        V("c25_limit", "LimitState::{take_from, satisfied}",
          "invariant preserved; skip/fetch unchanged; emitted rows == input rows [max(consumed,skip), min(consumed+n, skip+fetch)); None iff that range is empty; slice preconditions met; no overflow"),
        V("c25_compare_rows", "streaming_k_way_merge::compare_rows (closure body: the whole per-key loop)",
          "for ANY number of sort keys, given that both batches evaluate every key: the result == the lexicographic order over the keys in key order, each key compared by Arrow's comparator built with descending == (direction is DESC) and nulls_first == (nulls is NULLS FIRST) on the two key columns at (row_a, row_b); the first key that does not tie decides, Equal only when every key ties (loop invariant, no bound on the key count)"),
        V("c25_spilled_fetch", "ExternalSortExec::execute (spilled branch: the `match self.fetch` statement and its truncation loop)",
          "for ANY number of merged batches of any sizes: the output batches concatenated == the first min(fetch, total) rows of the merged batches concatenated, in order (all rows for fetch = None); slice preconditions met; `remaining -= n` never underflows (loop invariant over the whole Vec, no bound)"),
    ],
    "trusted_base": [
        "carrier contracts on arrow RecordBatch (R6): num_rows() == number of rows; slice(o,l) is rows[o..o+l] and requires o+l <= num_rows",
        "c25_compare_rows: the closure is verified as a function whose parameter list restates the closure's (outside the copied region); R5 indexed iteration over the `order_by` slice; carriers: evaluate_expr = oracle for the key column of a batch, ArrayRef::as_ref, arrow::array::make_comparator returns a closure whose call contract is Arrow's order under the SortOptions it was given, DEFINED (open spec fn arrow_cmp, assumed dependency contract, the same one the Kani carrier states) as: two NULLs tie, a NULL goes first iff nulls_first whatever the direction, values by an uninterpreted total order reversed when descending; ArrayRef::is_null / is_valid read the same NULL predicate; SortOptions::default() = ascending, nulls first; assumed std contract Ordering::reverse; assumed std contract: `==`/`!=` on std::cmp::Ordering is structural (assume_specification on PartialEq::eq)",
        "R5: in c25_spilled_fetch `for batch in result` is verified as `for gi in 0..result.len()` with `let batch = &result[gi]` (same elements, same order; the Vec is consumed in the real code, borrowed in the unit); R1: ExternalSortExec reduced to its `fetch` field",
        "R1: LimitState reduced to skip/fetch/skipped/fetched (operator plumbing fields dropped); ghost parameter `consumed` added to take_from's verified signature (spec-only)",
        "the stream::unfold loop that calls take_from once per batch, partitions in index order, is structural and not verified",
        "assumed contract on arrow::array::make_comparator(l, r, SortOptions{descending, nulls_first}) and on lexsort_to_indices: both order values ascending (reversed when descending) and NULLs first iff nulls_first - the carrier in kani/spillable.rs::rows_c states it",
        "carriers (R6) for the spilled-sort regions: RecordBatch = a range of rows (num_rows, slice with its bounds precondition asserted), Vec = small list, run readers yield the following batches of their run, build_merged_batch = take(row i of the batch currently in run_buffers[run]); evaluate_expr / read_parquet / merge_runs are oracles",
    ],
    "not_under_contract": ["Arrow's lexsort_to_indices / take themselves (the dependency's: what they are ASKED for is under contract, not what they do)", "SortExec::execute around sort_batch (input collection, concat_batches, Utf8 promotion)", "the minimum search across runs and build_merged_batch / build_merged_batch_final bodies (Arrow take/concat)", "multi_pass_merge file handling"],
    "technique": "Verus on the verbatim LimitState methods with RecordBatch as a carrier type and a ghost consumed-rows counter, on the verbatim fetch-truncation statement of the spilled sort and on the verbatim per-key loop of its merge comparator (loop invariants, unbounded); Kani on verbatim regions / whole bodies (bind_order_by defaults, the planner's Limit arm, both sort_batch functions, the spilled sort's comparator, merge step and fetch) compiled against carrier types that record what the Arrow dependency is asked for",
    "level_text": "Deductive and unbounded for LIMIT/OFFSET arithmetic (every skip/fetch pair, batch size and batch split), for the binder's direction / NULL-placement defaults, for the planner's Sort+Limit fusion and for the per-key merge comparator (loop-free, full domain). The spilled sort's fetch truncation loop is also deductive and unbounded (Verus loop invariant over any number of merged batches; the bounded Kani harness of the same region stays as a cross-check that yields counterexamples). The merge comparator's whole per-key loop is deductive and unbounded as well (Verus loop invariant, any number of sort keys; the bounded Kani harnesses of the same text stay as the counterexample-producing cross-check). The sort requests and the merge step are decided for bounded list lengths (<= 3 keys / columns / batches / queued rows), labelled bounded.",
    "level_note": "Trusted: Verus/Z3, Kani/CBMC; carrier contracts on arrow RecordBatch, lexsort_to_indices, take, make_comparator (what they are asked for is under contract, what they do is the dependency's); the async operator plumbing is outside.",
}

# ------------------------------------------------------------------ C21
MAG = "physical::morsel_agg"
_C21_SLOW = ("merge_min", "merge_max", "update_i64_min", "update_i64_max", "update_f64_min", "update_f64_max",
             "update_scalar_f64_min", "update_scalar_f64_max", "update_scalar_i64_min", "update_scalar_i64_max", "c21_m_finalize_avg")


_C21_REAL_TYPE_KEPT = ("c21_m_update_i64_min", "c21_m_merge_min", "c21_m_merge_max")  # c21_m_update_f64_max: no result in 25 min alone (measured)


def _c21_harnesses():
    src = open(os.path.join(os.path.dirname(os.path.dirname(os.path.abspath(__file__))), "kani", "morsel_agg.rs")).read()
    names = []
    for m in re.finditer(r"(?m)^(?:\w+!\(|fn )(c21_m_\w+)(?:, (c21_m_\w+))?", src):
        for g in m.groups():
            if g and g not in names:
                names.append(g)
    out = []
    for n in names:
        if n == "c21_m_finalize_avg":
            continue  # bit-equality of two f64 dividers: no result in 30 min (measured); the NULL rule is c21_m_finalize_avg_null_rule
        if n in _C21_REAL_TYPE_KEPT:
            pass
        elif any(t in n for t in _C21_SLOW) and n != "c21_m_finalize_avg_null_rule":
            # MIN/MAX on the real ScalarValue type: 15-29 GB and 4-14 min of CBMC EACH (measured; eight in parallel were
            # OOM-killed, two in parallel reached 58 GB of 62). The thorough tier keeps three base cases, one at a time
            # (`heavy`); the other starts and the ScalarValue slow path are decided on the carrier instance (c21_c_*),
            # which is the same impl text.
            continue
        slow = any(t in n for t in _C21_SLOW) and n != "c21_m_finalize_avg_null_rule"
        if "_new_" in n:
            fn, c = "AccumulatorState::new + finalize", "the state of an empty group finalizes to COUNT = 0 / NULL for SUM, AVG, MIN, MAX"
        elif "update_null" in n:
            fn, c = "AccumulatorState::update", "update(NULL) leaves the state bit-for-bit unchanged"
        elif "update_count" in n:
            fn, c = "AccumulatorState::update_count", "Count: c+1; every other variant unchanged"
        elif "update_scalar" in n:
            fn, c = "AccumulatorState::update (ScalarValue slow path)", "one non-NULL row: count+1 / sum+v with the same machine operation / seen=true / min,max updated; variant never changes; agrees with the fast path"
        elif "update_i64" in n or "update_f64" in n:
            fn, c = "AccumulatorState::update_i64/update_f64", "one non-NULL row from an arbitrary state: count+1 / sum+v / seen=true / min,max never back to empty and equal min/max(old,v)"
        elif "merge_mismatch" in n:
            fn, c = "AccumulatorState::merge", "states of different aggregates: left side unchanged"
        elif "merge" in n:
            fn, c = "AccumulatorState::merge", "alpha(a') = alpha(a) (+) alpha(b): counts and sums add, seen = sa || sb, min/max of options (empty is the identity)"
        else:
            fn, c = "AccumulatorState::finalize", "Count -> Int64(cnt); Sum/SumInt -> NULL iff !seen; Avg -> NULL iff count==0 else sum/count; Min/Max -> NULL iff empty"
        h = H(MAG, n, fn, c, tier="thorough" if slow else "quick")
        if slow:
            h["heavy"] = True
        out.append(h)
    cm = MAG + "::verif_kani::carr"
    car = "whole `impl AccumulatorState` + compare_scalar_values compiled verbatim against a carrier ScalarValue"
    out.append({"name": cm + "::c21_c_merge_min_max", "fn": "AccumulatorState::merge (" + car + ")", "contract": "MIN/MAX merge: empty is the identity, a value is never lost to an empty side, result is the smaller/larger; Int64/Utf8/Date32/Float64, every empty/non-empty combination", "lane": "KX", "bound": None, "tier": "quick", "finding": None})
    out.append({"name": cm + "::c21_c_update_min_max", "fn": "AccumulatorState::update (" + car + ")", "contract": "MIN/MAX slow path: NULL changes nothing; a value makes the state non-empty and keeps min/max(old, v)", "lane": "KX", "bound": None, "tier": "quick", "finding": None})
    out.append({"name": cm + "::c21_c_update_fast_min_max", "fn": "AccumulatorState::update_i64/update_f64 (" + car + ")", "contract": "MIN/MAX fast paths: Some(min/max(old, v)), never back to empty", "lane": "KX", "bound": None, "tier": "quick", "finding": None})
    out.append({"name": cm + "::c21_c_finalize_min_max", "fn": "AccumulatorState::finalize/new (" + car + ")", "contract": "MIN/MAX finalize to NULL exactly for the empty state, else the held value; new() is empty", "lane": "KX", "bound": None, "tier": "quick", "finding": None})
    return out


PROPS["C21"] = {
    "files": ["kani/morsel_agg.rs"],
    "level": "proof",
    "explanation": "Morsel aggregation path (what every Parquet aggregate uses): the private state machine AccumulatorState of src/physical/morsel_agg.rs is put under contract method by method. "
                   "Each harness starts from an ARBITRARY state of one variant (all scalar domains symbolic), so it is the inductive step over the row sequence and over the merge tree: "
                   "NULL input changes nothing, a non-NULL row adds exactly itself, merge adds the abstractions (empty = identity, seen flags OR-ed), finalize yields COUNT=cnt and NULL for "
                   "SUM/AVG/MIN/MAX exactly when no non-NULL input was seen. By induction every batch split and merge order gives the SQL value (pen and paper, two lines).",
    "kani": _c21_harnesses(),
    "harness_timeout": {"quick": "6m", "thorough": "40m"},
    "trusted_base": [
        "stub: derived ScalarValue::clone replaced by an identical clone on the scalar variants used (Null/Boolean/Int32/Int64/Float64/Date32); any other variant fails the harness",
        "harness floats are bounded in magnitude (<= 1e300) so that sums stay finite: floating overflow is engine-defined and outside the property",
        "integer overflow of counters/sums is excluded by assumption (engine-defined, excluded by the property)",
        "composition over rows / morsels / merge trees is pen and paper (associativity of the abstraction)",
    ],
    "not_under_contract": ["the column loops in process_batch / operators that call update_* once per non-NULL row (Arrow buffers)", "hash path (hash_agg.rs), VectorizedGroupTable, aggregate_scalar_simd, dense-key path, spilled path",
                           "on the real ScalarValue type the MIN/MAX update and merge steps are decided in the thorough tier only (drop glue makes each cost ~9 min of CBMC); the quick tier decides them on the carrier instance", "the value of the AVG quotient sum/count (bit-equality of two f64 dividers gives no result in 30 min); its NULL rule and result type are decided"],
    "technique": "Kani proof harnesses in place on the private accumulator state machine, one inductive step per (operation, variant) from an arbitrary state",
    "level_text": "Deductive per step for all scalar values and all states of each variant; the step results compose by induction to every row sequence, batch split and merge order of the morsel path. Other aggregation paths are not under contract (stated).",
    "level_note": "Trusted: Kani/CBMC; ScalarValue::clone stub; bounded float magnitudes; no-overflow assumptions on counters; the loops that feed the accumulators and every non-morsel path are outside.",
}

# ------------------------------------------------------------------ C42
TOP = "execution::topology"
PROPS["C42"] = {
    "files": ["kani/topology.rs"],
    "level": "proof",
    "explanation": "workers_for is proved for all (usize, usize). parse_cpulist: CBMC cannot afford std's str machinery (measured > 8 min for 3 bytes), so the loop body is verified as a verbatim region "
                   "with the std str API as a carrier type (assumed contracts: trim, is_empty, split_once('-'), parse::<usize>): for every part and every id in usize it appends exactly the ids the part "
                   "denotes, ascending, nothing for junk, empty parts or malformed ranges. The final sort_unstable + dedup are std's (assumed: sorted, unique).",
    "kani": [
        H(TOP, "c42_workers_for_contract", "workers_for", "1 <= r <= max(max,1); r <= max(work,1); r == work when 1 <= work <= max; all (usize,usize)"),
        H(TOP, "c42_kx_cpulist_part_denotation", "parse_cpulist (loop body region)", "appended ids == denotation of the part (singleton / inclusive range / nothing), ascending, frame preserved, no panic; all ids in usize",
          lane="KX", bound="range width <= 4 (the `for c in a..=b` loop)"),
        {"name": TOP + "::verif_kani::whole::c42_kx_parse_cpulist_whole", "fn": "parse_cpulist (whole function body on carriers)", "contract": "result strictly increasing and exactly the union of what the parts denote (singletons, inclusive ranges, junk ignored)", "lane": "KX", "bound": "<= 2 parts, ranges <= 3 wide, ids < 6", "tier": "quick", "finding": None},
    ],
    "trusted_base": [
        "carrier contracts on std str (R6): trim keeps the parse result, is_empty, split_once('-') splits at the first '-', parse::<usize>() is Ok exactly for decimal usize text",
        "std sort_unstable + dedup return the sorted set (outside the region)",
    ],
    "not_under_contract": ["for part in s.trim().split(',') header", "std's own sort_unstable / dedup (modelled by the carrier)", "an enormous range such as 0-18446744073709551615 allocates without bound (outside the property's statement)"],
    "technique": "Kani contract (all inputs) on workers_for; Kani on the verbatim loop body of parse_cpulist with the std string API as a carrier type",
    "level_text": "workers_for: deductive for all inputs. parse_cpulist: the part-level logic is proved for all ids with the range loop bounded at width 4 (labelled bounded); string splitting/parsing is assumed from std.",
    "level_note": "Trusted: Kani/CBMC; carrier contracts for std str methods; std sort/dedup.",
}

# ------------------------------------------------------------------ C03
OC3 = "optimizer::rules::packed_join_keys"
PROPS["C03"] = {
    "files": ["verus/c03_pack_join.vrs", "verus/c03_pack_group.vrs", "verus/c03_eager_keys.vrs", "verus/c03_common.inc", "kani/optimizer_c03.rs"],
    "level": "proof",
    "explanation": "Decided for the statistics guards only: every rule that rewrites on the strength of footer statistics has a guard whose truth must imply the fact the rewrite needs, for every table "
                   "consistent with sound statistics (C18). The arithmetic regions of PackedJoinKeys::try_pack, PackedGroupKeys::try_pack and EagerAggregation::build_keys are copied from the real source "
                   "and verified by Verus (all bounds, unbounded) and again by Kani (bit-precise, loop-free, all inputs): over the whole in-bounds key domain the packed value a*K + c is computed without "
                   "i64 overflow and is injective, the same K is used on both sides, and the unpack literals (shift, mask) return the original pair. The uniqueness gates of GroupKeyReduction::is_unique_key "
                   "and EagerAggregation::try_rewrite_left_count are checked against every 3-row table consistent with the statistics.",
    "kani": [
        H(OC3, "c03_r3_checked_next_power_of_two", "u64::checked_next_power_of_two (std)", "cross-check of the assume_specification used by the Verus unit, all u64"),
        H(OC3, "c03_r3_next_power_of_two", "u64::next_power_of_two (std)", "cross-check of the assume_specification used by the Verus units, all x <= 2^63"),
        H(OC3, "c03_g1_guard_nonneg", "PackedJoinKeys::try_pack (guard region)", "passes iff all four lower bounds are >= 0 (precondition of the arithmetic region)", lane="KX"),
        H(OC3, "c03_g1_join_pack_twin", "PackedJoinKeys::try_pack (arithmetic region)", "Some(k) ==> for all in-bounds (a,c),(a',c'): a*k+c does not overflow (checked_mul/checked_add) and is injective; all bounds", lane="KX"),
        H(OC3, "c03_g2_group_pack_unpack_roundtrip", "PackedGroupKeys::try_pack (arithmetic region)", "Some((k,shift,mask)) ==> lower bounds >= 0, a*(k as i64)+b does not overflow, (pk >> shift, pk & mask) == (a,b); all bounds, all in-bounds keys", lane="KX"),
        H(OC3, "c03_g3_eager_pack_twin", "EagerAggregation::build_keys (arithmetic region)", "Some(k) ==> packing with literal k is overflow-free and injective over the in-bounds domain; all bounds", lane="KX"),
        H(OC3, "c03_g4_unique_gate", "GroupKeyReduction::is_unique_key (gate region)", "true ==> every table consistent with the statistics has no NULL and no duplicate", lane="KX", bound="3-row tables, values in (-1000,1000)", finding="D3"),
        H(OC3, "c03_g4_unique_gate__excluding_known", "GroupKeyReduction::is_unique_key (gate region)", "same, outside class D3 (tables with duplicate values): true ==> no NULL", lane="KX", bound="3-row tables"),
        H(OC3, "c03_g4_left_count_gate", "EagerAggregation::try_rewrite_left_count (gate region)", "gate passes ==> no NULL and no duplicate in every consistent table", lane="KX", bound="3-row tables", finding="D3"),
        H(OC3, "c03_g4_left_count_gate__excluding_known", "EagerAggregation::try_rewrite_left_count (gate region)", "same, outside class D3", lane="KX", bound="3-row tables"),
        H(OC3, "c03_g4_gates_need_statistics", "both uniqueness gates", "missing null count, non-zero null count or missing NDV estimate never prove uniqueness", lane="KX"),
    ],
    "verus": [
        V("c03_pack_join", "PackedJoinKeys::try_pack (`let max2` .. `let k = k as i64;`)", "Some(k) ==> pack_ok(k, max(b0.hi,b1.hi), max(b2.hi,b3.hi)): product and packed value within 0..=i64::MAX, injective; unbounded (mathematical integers)",
          twin=[f"{OC3}::verif_kani::c03_g1_join_pack_twin"]),
        V("c03_pack_group", "PackedGroupKeys::try_pack (`if a_min < 0 || b_min < 0` .. `let mask`)", "Some((k,..)) ==> a_min,b_min >= 0 and pack_ok(k as i64, a_max, b_max)",
          twin=[f"{OC3}::verif_kani::c03_g2_group_pack_unpack_roundtrip"]),
        V("c03_eager_keys", "EagerAggregation::build_keys (`let k1_max` .. `let k = k as i64;`)", "Some(k) ==> pack_ok(k, bounds[0], bounds[1])",
          twin=[f"{OC3}::verif_kani::c03_g3_eager_pack_twin"]),
    ],
    "trusted_base": [
        "statistics are sound bounds (C18): min_i64 <= v <= max_i64, null_count exact; ndv_est is min(non_null, max-min+1) as compute_statistics derives it",
        "assume_specification for u64::checked_next_power_of_two / next_power_of_two, each discharged against the real std function by a Kani harness (c03_r3_*)",
        "carriers KColStats / KTabStats: the three fields the gates read",
        "the plan places exactly the k / shift / mask computed by the region (construction code not under contract)",
    ],
    "not_under_contract": ["every rule that does not consult statistics, and the rewrites themselves (plan-to-plan equivalence needs a semantics for LogicalPlan)", "HashMap<String,_> statistics lookups (column_bounds, column_stats_for)", "JoinReorder cardinality estimates (estimates only reorder)"],
    "technique": "Verus on the verbatim arithmetic regions of the three packing rules + Kani (bit-precise, all inputs) on the same regions and on the uniqueness gates",
    "level_text": "Deductive for the guards: for all statistics values the guard implies overflow-freedom and injectivity of the packed key over every consistent table (Verus over mathematical integers, Kani over machine integers). Uniqueness gates: bounded at 3-row tables.",
    "level_note": "Trusted: Verus/Z3, Kani/CBMC; statistics sound (C18); std power-of-two functions cross-checked; lookups and plan construction outside. Known finding D3 (uniqueness inferred from an NDV upper bound) excluded by class.",
}

# ------------------------------------------------------------------ C18
PQS = "storage::parquet"
PROPS["C18"] = {
    "files": ["kani/parquet_stats.rs"],
    "level": "proof",
    "explanation": "ParquetTable::compute_statistics opens files itself, so the function as a whole is outside any verifier; its logic is four regions cut verbatim (together with the local struct ColAcc) and "
                   "verified by Kani for all values: (F1+F4) folding one more column chunk into an ARBITRARY accumulator keeps the invariant that the null count is exact-or-unknown and that whatever "
                   "min/max the table reports covers every non-NULL value of every folded chunk - for every chunk variant (no statistics, statistics without min/max, Int64, Int32, null count present or not); "
                   "(F3) non_null never underflows and ndv_est never panics and is exactly min(non_null, max-min+1), an upper bound on the distinct count and nothing more.",
    "kani": [
        H(PQS, "c18_f1_fold_chunk_step", "compute_statistics (per-chunk fold region + reported-bounds region, struct ColAcc verbatim)", "inductive step: J0 representation invariant, J1 null_count exact or None, J2 reported min/max cover an arbitrary old value and an arbitrary value of the new chunk; all chunk variants", lane="KX"),
        H(PQS, "c18_f1_all_null_chunk_keeps_bounds", "compute_statistics (per-chunk fold region)", "an all-NULL chunk (no min/max, null_count == num_values) leaves the reported bounds unchanged", lane="KX"),
        H(PQS, "c18_f3_non_null", "compute_statistics (non_null region)", "non_null == total_rows.saturating_sub(nulls) or total_rows; <= total_rows; all inputs", lane="KX"),
        H(PQS, "c18_f3_ndv_est_upper_bound", "compute_statistics (ndv_est region)", "no panic for any min <= max; result == min(non_null, max-min+1) over the integers; None without bounds", lane="KX"),
    ],
    "trusted_base": [
        "each chunk's own footer statistics are sound for that chunk (null count exact, min <= v <= max) - the writer's guarantee, assumed by the property",
        "the footer read is the file's; rg.num_rows() summed into total_rows (a one-line fold) is not under contract",
        "carrier KChunk for ColumnChunkMetaData: statistics() (real parquet Statistics values) and num_values()",
        "induction over chunks, row groups and files is pen and paper (one step proved for an arbitrary state)",
    ],
    "not_under_contract": ["file opening / footer parsing", "the dictionary-page NDV probe for string columns (file I/O; estimate only)", "ShardedParquetTable::statistics' scaling of row_count/total_byte_size", "total_rows / total_bytes sums"],
    "technique": "Kani on verbatim regions of compute_statistics (the fold body, the reported-bounds rule, the NDV expression) as an inductive step from an arbitrary accumulator",
    "level_text": "Deductive for the fold logic: all statistics values, all chunk variants, arbitrary accumulator state, so it holds for every row-group layout and file count by induction; I/O around it is assumed.",
    "level_note": "Trusted: Kani/CBMC; writer statistics sound per chunk; footer contents; carriers for chunk metadata; the induction over chunks is pen and paper.",
}

# ------------------------------------------------------------------ C41
GRV = "metastore::gravitino"
_C41 = [
    ("c41_b_roundtrip_one_chunk_1", "dechunk(1 CRLF x CRLF 0 CRLF CRLF) == Some([x]) for every byte x", "1 chunk of 1 byte", None),
    ("c41_b_roundtrip_one_chunk_3_padded_size", "size line '03 ' (leading zero, trailing blank): Some([x,y,z])", "1 chunk of 3 bytes", None),
    ("c41_b_roundtrip_two_chunks", "two chunks reassemble in order: Some([x,y])", "2 chunks of 1 byte", None),
    ("c41_b_empty_body", "last-chunk only: Some([])", "fixed input", None),
    ("c41_b_chunk_extension_fixed_text", "a chunk extension (`1;x=1`) does not change the decoded body", "1 chunk, fixed extension text, symbolic payload byte", None),
    ("c41_b_chunk_extension_ignored", "a chunk extension (`1;e`, any letter e) does not change the decoded body", "1 chunk, 1-letter extension", "thorough"),
    ("c41_b_missing_crlf_after_data_rejected", "chunk data not followed by CRLF is rejected (None)", "1 chunk, 2 arbitrary bytes in place of CRLF", None),
    ("c41_b_short_data_rejected", "declared size larger than the data present: None", "declared 5, present 1", None),
    ("c41_b_non_hex_size_fixed_text", "size line `zz` is not hexadecimal: None", "fixed size line, symbolic payload byte", None),
    ("c41_b_non_hex_size_rejected", "size line that is not hexadecimal: None", "1 letter g..z", "thorough"),
    ("c41_b_missing_last_chunk_rejected", "input ends after a complete data chunk (no last-chunk): None", "1 chunk", None),
    ("c41_b_huge_size_no_panic", "size ffffffffffffffff: no panic (size + 2), rejected", "fixed input", None),
    ("c41_b_huge_size_minus_one_no_panic", "size fffffffffffffffe: no panic, rejected", "fixed input", None),
    ("c41_b_arbitrary_bytes_no_panic", "no 3-byte ASCII input makes the decoder panic", "3 arbitrary ASCII bytes", "thorough"),
]
PROPS["C41"] = {
    "files": ["kani/gravitino.rs"],
    "level": "other",
    "explanation": "Bounded stand-in only: gravitino::dechunk is byte/str code (windows/position, from_utf8, trim, from_str_radix) that Verus cannot read and CBMC can only execute on short inputs. "
                   "Each obligation runs the REAL function on a structured symbolic input: the framing is laid out by the harness, payload bytes / extension letters / stray bytes are symbolic; "
                   "three std string functions are replaced by byte-level models that agree with std on ASCII (listed). Decided within these bounds: round trip for 1-3 payload bytes in 1-2 chunks, "
                   "chunk extensions, rejection of four kinds of malformed framing, and panic-freedom for huge sizes and for every 3-byte ASCII input. Nothing here is a proof for all bodies and chunkings.",
    "kani": [H(GRV, n, "gravitino::dechunk", c, lane="B", bound=b, tier=(t or "quick")) for n, c, b, t in _C41],
    "harness_timeout": {"quick": "15m", "thorough": "30m"},
    "trusted_base": [
        "stubs (assumed contracts on std, ASCII only; a non-ASCII byte reaching them fails the harness): std::str::from_utf8, str::trim, usize::from_str_radix(.., 16)",
        "bounded: every obligation fixes the number and size of chunks (<= 2 chunks, <= 3 payload bytes)",
    ],
    "not_under_contract": ["http_get (socket I/O, header parsing, Transfer-Encoding detection)", "bodies / chunk counts beyond the stated bounds", "non-ASCII bytes in the size line"],
    "technique": "bounded Kani harnesses (structured symbolic inputs) on the real dechunk; labelled bounded, not a proof",
    "level_text": "Bounded model checking of the real decoder on structured inputs; complete only within the stated chunk counts and sizes. Chosen because no contract-based route reaches str-heavy byte parsing with the installed tools.",
    "level_note": "Trusted: Kani/CBMC; three std string functions replaced by ASCII byte-level models; bounds as listed per obligation.",
}

# ------------------------------------------------------------------ C06
CEX = "physical::compiled_expr"
PROPS["C06"] = {
    "files": ["kani/compiled_expr.rs"],
    "level": "proof",
    "explanation": "The kernels of the compiled predicate path (CompiledPredicate::eval_chunk: CmpF64 / CmpI64 / CmpI32 in every operand shape, f64 arithmetic, And/Or/Not) are run by CBMC on the real code for "
                   "ALL scalar bit patterns and compared with the interpreter's per-element semantics, for which the harness calls the real arrow functions (ArrowNativeTypeOp::is_eq/is_lt/..: total order for "
                   "floats). Kernels are position-wise uniform, so a per-element result is a per-row result for every batch length.",
    "kani": [
        H(CEX, "c06_cmp_f64_scalars", "CompiledPredicate::eval_chunk (CmpF64)", "mask bit == arrow total-order comparison, all f64 bit patterns x 6 operators", finding="D7"),
        H(CEX, "c06_cmp_f64_scalars__excluding_known", "CompiledPredicate::eval_chunk (CmpF64)", "same, outside class D7 (NaN operand, or both operands zero); mask is 0/1"),
        H(CEX, "c06_cmp_f64_shape_reg_lit__excluding_known", "CompiledPredicate::eval_chunk (CmpF64, LitF64)", "register/scalar shape keeps the operand order"),
        H(CEX, "c06_cmp_f64_shape_lit_reg__excluding_known", "CompiledPredicate::eval_chunk (CmpF64, LitF64)", "scalar/register shape keeps the operand order", tier="thorough"),
        H(CEX, "c06_cmp_f64_shape_reg_reg__excluding_known", "CompiledPredicate::eval_chunk (CmpF64, LitF64)", "register/register shape keeps the operand order", tier="thorough"),
        H(CEX, "c06_cmp_i64_scalars", "CompiledPredicate::eval_chunk (CmpI64)", "mask bit == arrow i64 comparison, all inputs, mask is 0/1"),
        H(CEX, "c06_cmp_i32_scalars", "CompiledPredicate::eval_chunk (CmpI32)", "mask bit == arrow i32 comparison (Int32 and Date32 columns), all inputs"),
        H(CEX, "loop_c::c06_kx_chunk_loop_n19", "CompiledPredicate::evaluate (everything between column resolution and the BooleanArray: slab allocation, bitmap decision, the whole chunk loop)", "19 rows = chunks 8+8+3 (CHUNK = 8 instance): appended mask bit r == truth of row r, exactly n bits, validity bitmap present when any column has a NULL and row-valid == all columns valid; eval_chunk by contract", lane="B", bound="CHUNK = 8 instance of the text; n = 19; 1-2 columns"),
        H(CEX, "loop_c::c06_kx_chunk_loop_n13", "CompiledPredicate::evaluate (chunk loop)", "same, 13 rows = 8 + ragged 5", lane="B", bound="CHUNK = 8 instance; n = 13"),
        H(CEX, "loop_c::c06_kx_chunk_loop_n8", "CompiledPredicate::evaluate (chunk loop)", "same, exactly one chunk", lane="B", bound="CHUNK = 8 instance; n = 8"),
        H(CEX, "loop_c::c06_kx_chunk_loop_n5", "CompiledPredicate::evaluate (chunk loop)", "same, one ragged chunk", lane="B", bound="CHUNK = 8 instance; n = 5"),
        H(CEX, "loop_c::c06_kx_chunk_loop_n0", "CompiledPredicate::evaluate (chunk loop)", "same, empty batch", lane="B", bound="CHUNK = 8 instance; n = 0"),
        H(CEX, "c06_pack_bits_region", "CompiledPredicate::evaluate (bit-packing region)", "bit i of the packed buffer == (mask[i] != 0) for i < len; no bit set beyond the last byte", lane="KX", bound="chunk lengths 0..=19 (every len % 8)"),
        H(CEX, "c06_lit_f64_fills_register", "CompiledPredicate::eval_chunk (LitF64)", "the literal fills its register; other registers untouched"),
        H(CEX, "c06_arith_f64_add", "CompiledPredicate::eval_chunk (Arith, LitF64)", "Add bit-equal to the IEEE operation; operand registers untouched (magnitudes bounded so results stay finite)", tier="thorough"),
        H(CEX, "c06_arith_f64_sub", "CompiledPredicate::eval_chunk (Arith, LitF64)", "Subtract bit-equal to the IEEE operation", tier="thorough"),
        H(CEX, "c02_o1_mask_and", "CompiledPredicate::eval_chunk (And)", "d == x & y on 0/1 masks; operands untouched"),
        H(CEX, "c02_o1_mask_or", "CompiledPredicate::eval_chunk (Or)", "d == x | y on 0/1 masks; operands untouched"),
        H(CEX, "c02_o1_mask_not", "CompiledPredicate::eval_chunk (Not)", "d == 1 - x on 0/1 masks; operand untouched"),
    ],
    "harness_timeout": {"quick": "15m", "thorough": "30m"},
    "jobs": {"thorough": 3},   # the float-arithmetic obligations slow down 3-4x next to 7 other CBMC processes
    "trusted_base": [
        "interpreter comparison semantics = arrow ArrowNativeTypeOp (called as oracle); arrow kernels are position-wise uniform",
        "column-slice shapes read arrow value buffers directly (`arr.values()[start..start+len]`): exercised with literal/register operands only; a 1-row real array costs ~100 s per harness and is not part of the quick tier",
        "QE_COMPILE switch (compilation_enabled) and PredicateEvaluator's fallback order are structural",
    ],
    "not_under_contract": ["evaluate()'s chunk loop (1024-row chunk boundary) and BooleanBufferBuilder::append_packed_range", "Compiler::boolean/side/num_f64 (which expressions are accepted) — needs arrow Schema construction", "f64 multiplication and division kernels (bit-equality of two float multipliers / dividers is beyond the SAT budget: the multiply obligation verifies alone in ~5 min but not reliably next to other harnesses)", "find_batch_column"],
    "technique": "Kani proof harnesses in place on the private eval_chunk kernels, all scalar bit patterns, against the real arrow scalar comparison functions as oracle",
    "level_text": "Deductive per kernel for all inputs (loop bound 2 rows is irrelevant: every row runs the same straight-line code); mismatches between IEEE and total order are the known finding D7.",
    "level_note": "Trusted: Kani/CBMC; arrow's scalar comparison functions as the interpreter's semantics; position-wise uniformity of kernels. Known finding D7 excluded by class.",
}

# ------------------------------------------------------------------ C02
CFO = "optimizer::rules::constant_folding"
PROPS["C02"] = {
    "files": ["kani/compiled_expr.rs", "kani/constant_folding.rs"],
    "level": "proof",
    "explanation": "Decided for the compiled predicate path and the constant folder. (O1) the And/Or/Not mask kernels compute the two-valued connectives; (O2) the validity rule of CompiledPredicate::evaluate "
                   "(verbatim region, arrays as a carrier) combined with the mask: a row must be kept exactly when the SQL three-valued value of `a<c1 AND/OR b<c2` is TRUE, for all nine operand states; "
                   "(O4) ConstantFolding::eval_int64 / eval_bool / eval_float64 return the SQL value of the literal expression for all inputs and never panic. The interpreter's AND/OR/NOT arms "
                   "(arrow bit-chunk kernels) exceed 10 min / 5 GB in CBMC and are not under contract.",
    "kani": [
        H(CEX, "c02_o1_mask_and", "CompiledPredicate::eval_chunk (And)", "d == x & y on 0/1 masks; operands untouched"),
        H(CEX, "c02_o1_mask_or", "CompiledPredicate::eval_chunk (Or)", "d == x | y on 0/1 masks; operands untouched"),
        H(CEX, "c02_o1_mask_not", "CompiledPredicate::eval_chunk (Not)", "d == 1 - x on 0/1 masks; operand untouched"),
        H(CEX, "c02_o2_bitmap_exists_for_null_column", "CompiledPredicate::evaluate (bitmap-init region: every statement between the column loop and the chunk loop)", "some referenced column has a NULL ==> a validity bitmap is built (1 or 2 columns, all null patterns)", lane="KX"),
        H(CEX, "c02_o2_compiled_validity_kleene", "CompiledPredicate::evaluate (validity region + bitmap-init region)", "row kept <=> Kleene value of `p AND/OR q` is TRUE, all operand states (NULL cells carry arbitrary values)", lane="KX", finding="D1"),
        H(CEX, "c02_o2_compiled_validity_kleene__excluding_known", "CompiledPredicate::evaluate (validity region + bitmap-init region)", "same, outside class D1 (exactly one operand NULL and the other decides)", lane="KX"),
        H(CFO, "c02_o4_eval_int64_add", "ConstantFolding::eval_int64", "Add: folded value == checked_add; overflow not folded; all i64 pairs"),
        H(CFO, "c02_o4_eval_int64_sub", "ConstantFolding::eval_int64", "Subtract: folded value == checked_sub; all i64 pairs"),
        H(CFO, "c02_o4_eval_int64_mul", "ConstantFolding::eval_int64", "Multiply: folded value == checked_mul; all i64 pairs"),
        H(CFO, "c02_o4_eval_int64_div", "ConstantFolding::eval_int64", "Divide: never panics (i64::MIN / -1); folds to an Int64 exactly when defined; x / 0 not folded; all i64 pairs"),
        H(CFO, "c02_o4_eval_int64_rem", "ConstantFolding::eval_int64", "Modulo: never panics (i64::MIN % -1); x % 0 not folded; all i64 pairs"),
        H(CFO, "c02_o4_eval_int64_div_rem_samples", "ConstantFolding::eval_int64", "quotient / remainder on concrete samples (pins the operator; the symbolic value comparison needs two 64-bit dividers and does not finish)", lane="B", bound="5 concrete samples"),
        H(CFO, "c02_o4_eval_int64_eq", "ConstantFolding::eval_int64", "= folds to the comparison"),
        H(CFO, "c02_o4_eval_int64_ne", "ConstantFolding::eval_int64", "<> folds to the comparison"),
        H(CFO, "c02_o4_eval_int64_lt", "ConstantFolding::eval_int64", "< folds to the comparison"),
        H(CFO, "c02_o4_eval_int64_le", "ConstantFolding::eval_int64", "<= folds to the comparison"),
        H(CFO, "c02_o4_eval_int64_gt", "ConstantFolding::eval_int64", "> folds to the comparison"),
        H(CFO, "c02_o4_eval_int64_ge", "ConstantFolding::eval_int64", ">= folds to the comparison"),
        H(CFO, "c02_o4_eval_int64_other_ops_not_folded", "ConstantFolding::eval_int64", "a non-arithmetic, non-comparison operator is not folded"),
        H(CFO, "c02_o4_eval_bool", "ConstantFolding::eval_bool", "AND/OR/=/<> on non-NULL booleans"),
        {"name": CFO + "::verif_kani::fold_c::c02_o5_fold_and_leaf_left", "fn": "ConstantFolding::fold_expr (BinaryExpr arm, carrier Expr)", "contract": "inductive step (AND, left operand an opaque sub-expression; right operand any shape): for every 3VL valuation, eval3(fold(l op r)) == eval3(l) op3 eval3(r); recursive calls and eval_binary by contract", "lane": "KX", "bound": None, "tier": "quick", "finding": None},
        {"name": CFO + "::verif_kani::fold_c::c02_o5_fold_and_literal_left", "fn": "ConstantFolding::fold_expr (BinaryExpr arm, carrier Expr)", "contract": "inductive step (AND, left operand a TRUE/FALSE/NULL literal; right operand any shape): for every 3VL valuation, eval3(fold(l op r)) == eval3(l) op3 eval3(r); recursive calls and eval_binary by contract", "lane": "KX", "bound": None, "tier": "quick", "finding": None},
        {"name": CFO + "::verif_kani::fold_c::c02_o5_fold_or_leaf_left", "fn": "ConstantFolding::fold_expr (BinaryExpr arm, carrier Expr)", "contract": "inductive step (OR, left operand an opaque sub-expression; right operand any shape): for every 3VL valuation, eval3(fold(l op r)) == eval3(l) op3 eval3(r); recursive calls and eval_binary by contract", "lane": "KX", "bound": None, "tier": "quick", "finding": None},
        {"name": CFO + "::verif_kani::fold_c::c02_o5_fold_or_literal_left", "fn": "ConstantFolding::fold_expr (BinaryExpr arm, carrier Expr)", "contract": "inductive step (OR, left operand a TRUE/FALSE/NULL literal; right operand any shape): for every 3VL valuation, eval3(fold(l op r)) == eval3(l) op3 eval3(r); recursive calls and eval_binary by contract", "lane": "KX", "bound": None, "tier": "quick", "finding": None},
        H(CFO, "c02_o4_eval_float64__excluding_known", "ConstantFolding::eval_float64", "comparisons equal the interpreter's (arrow total order) outside the NaN/signed-zero class; x / 0.0 is not folded"),
    ],
    "trusted_base": [
        "carrier KArr for the typed column arrays in the validity region: as_any_array().is_valid(row), null_count()",
        "a NULL cell's value-buffer content is arbitrary (modelled by an arbitrary leaf mask bit)",
    ],
    "not_under_contract": ["filter::evaluate_binary_op And/Or arms, evaluate_unary_op Not, evaluate_in_list, BETWEEN tail (arrow boolean kernels: > 10 min / 5 GB each in CBMC)", "the non-binary arms of fold_expr (structural recursion) and eval_string", "LIKE fast path vs general matcher", "IS [NOT] NULL"],
    "technique": "Kani harnesses in place on the mask kernels and the constant folder (all inputs) + Kani on the verbatim validity region of CompiledPredicate::evaluate against Kleene logic",
    "level_text": "Deductive for the units named: all operand states and all literal values. The interpreter path is outside CBMC's reach and is stated as not under contract.",
    "level_note": "Trusted: Kani/CBMC; carrier for arrow arrays in the validity region. Known finding D1 (null-strict AND/OR in the compiled path, as in the interpreter) excluded by class.",
}

# ------------------------------------------------------------------ C15
MEMB = "distributed::membership::verif_kani::carr"


def _c15(name, fn, contract, bound, tier="quick"):
    return {"name": f"{MEMB}::{name}", "fn": fn, "contract": contract, "lane": "KX", "bound": bound, "tier": tier, "finding": None}


PROPS["C15"] = {
    "files": ["kani/membership.rs"],
    "level": "proof",
    "explanation": "The whole `impl Membership` block and its data types are copied verbatim on every run and compiled against carrier types (String as an address token, BTreeMap/HashSet/Vec as small "
                   "association lists, parking_lot::Mutex as an uncontended cell; is_self_address and now_unix_ms are oracles). Every harness starts from an ARBITRARY well-formed view (any subset of the "
                   "address universe as peers, arbitrary probe records, arbitrary generation), so each is the inductive step of the representation invariant: after any history the view lists this node "
                   "exactly once and never as a peer, addresses are strictly increasing, a resolve error removes nobody, the generation never decreases and advances exactly on a change of the member set "
                   "(and when a probe crosses Up), and re-resolving the same set keeps every peer's probe state field by field. Bounded: the address universe (data independence: the code only compares and orders addresses).",
    "kani": [
        _c15("c15_new_view", "Membership::new / members / peer_addresses", "fresh view: no peers, generation 0, not resolved, invariant holds", None),
        _c15("c15_members_view", "Membership::members / peer_addresses", "on any view: strictly increasing by address, self exactly once with is_self, every other entry a peer, address set == peers + self", "universe: self + 3 peers"),
        _c15("c15_set_members_step_tiny", "Membership::set_members", "keys' == non-self incoming addresses; surviving records unchanged field by field; new peers start Unknown; generation' == generation + [set changed]; resolved; error cleared; change log == symmetric difference, Removed before Added, each sorted", "universe: self, self under another spelling, 1 peer; incoming list <= 2 entries (duplicates allowed)"),
        _c15("c15_set_members_step_small", "Membership::set_members", "keys' == non-self incoming addresses; surviving records unchanged field by field; new peers start Unknown; generation' == generation + [set changed]; resolved; error cleared; change log == symmetric difference, Removed before Added, each sorted", "universe: self, self under another spelling, 2 peers; incoming list <= 2 entries (duplicates allowed)", tier="thorough"),
        _c15("c15_set_members_step", "Membership::set_members", "same contract", "universe: self, self under another spelling, 3 peers (one differs from self only by port); incoming list <= 3 entries", tier="thorough"),
        _c15("c15_record_probe_step", "Membership::record_up / record_down", "member set unchanged; only the probed record changes; generation + 1 exactly when the status crosses Up; unknown address (incl. self) is a no-op", "universe: self + 3 peers"),
        _c15("c15_record_resolve_error_step", "Membership::record_resolve_error", "no member removed, no record changed, generation and resolved unchanged, error recorded", "universe: self + 3 peers"),
    ],
    "harness_timeout": {"quick": "15m", "thorough": "40m"},
    "trusted_base": [
        "carriers (R6, executable models of the dependencies): String = address token deref-ing to str with the universe's string order; BTreeMap = association list kept sorted; HashSet = insertion-ordered small set (hash iteration order is one fixed order); Vec = fixed-capacity vector whose sort_by/sort_by_key is an insertion sort; parking_lot::Mutex = uncontended cell",
        "is_self_address oracle: the byte-identical address and one alternative spelling are self, a port-only difference is not (DNS / getifaddrs are outside any verifier)",
        "`#[serde(..)]` field attributes of struct Member are stripped in the carrier instance",
        "address universe bounded (self + 3 peers); all histories of all lengths follow by induction from the arbitrary pre-state",
    ],
    "not_under_contract": ["is_self_address itself (DNS, local interfaces)", "the prober / discovery tasks in server.rs that call these methods", "concurrent callers (the Mutex is modelled as uncontended: each method is one critical section)"],
    "technique": "Kani on the verbatim `impl Membership` compiled against carrier collection types, one inductive step per operation from an arbitrary view",
    "level_text": "Deductive per operation from an arbitrary pre-state, hence for every history; bounded only in the size of the address universe, which the code treats uniformly (comparison and ordering only).",
    "level_note": "Trusted: Kani/CBMC; carrier models of String/BTreeMap/HashSet/Vec/Mutex; the is_self_address oracle; universe bound.",
}


def claimed():
    return sorted(PROPS)
