/// Test generated for harness `physical::operators::spillable::verif_kani::fetch_c::c25_kx_spilled_result_honours_fetch` 
///
/// Check for `assertion`: "assertion failed: next == want"

#[test]
fn kani_concrete_playback_c25_kx_spilled_result_honours_fetch_2134527144545923409() {
    let concrete_vals: Vec<Vec<u8>> = vec![
        // 2ul
        vec![2, 0, 0, 0, 0, 0, 0, 0],
        // 1099511627776ul
        vec![0, 0, 0, 0, 0, 1, 0, 0],
        // 1099511627776ul
        vec![0, 0, 0, 0, 0, 1, 0, 0],
        // 1
        vec![1],
        // 0ul
        vec![0, 0, 0, 0, 0, 0, 0, 0],
        // 0ul
        vec![0, 0, 0, 0, 0, 0, 0, 0],
    ];
    kani::concrete_playback_run(concrete_vals, c25_kx_spilled_result_honours_fetch);
}
