/// Test generated for harness `storage::row_group_pruning::verif_kani::c05_l2_check_f64_stats_double` 
///
/// Check for `assertion`: "assertion failed: r"

#[test]
fn kani_concrete_playback_c05_l2_check_f64_stats_double_4149599444511366606() {
    let concrete_vals: Vec<Vec<u8>> = vec![
        // 1
        vec![1],
        // -2
        vec![255, 255, 255, 255, 255, 255, 255, 191],
        // 1
        vec![1],
        // -NaN
        vec![255, 255, 255, 255, 255, 255, 255, 255],
        // 1
        vec![1],
        // 18446744073709551615
        vec![255, 255, 255, 255, 255, 255, 255, 255],
        // +NaN
        vec![255, 255, 255, 255, 255, 255, 255, 127],
        // -2
        vec![255, 255, 255, 255, 255, 255, 255, 191],
        // 5
        vec![5],
        // 0
        vec![0],
    ];
    kani::concrete_playback_run(concrete_vals, c05_l2_check_f64_stats_double);
}
