/// Test generated for harness `storage::row_group_pruning::verif_kani::c05_l3_definite_int_int` 
///
/// Check for `assertion`: "assertion failed: holds_i64(op, val, x)"

#[test]
fn kani_concrete_playback_c05_l3_definite_int_int_5036402418023504246() {
    let concrete_vals: Vec<Vec<u8>> = vec![
        // 1
        vec![1],
        // 0ul
        vec![0, 0, 0, 0, 0, 0, 0, 0],
        // 1
        vec![1],
        // 1
        vec![1],
        // 72057594037927804
        vec![124, 255, 255, 255, 255, 255, 255, 0],
        // 1
        vec![1],
        // 1297036692682702718
        vec![126, 255, 255, 255, 255, 255, 255, 17],
        // 3
        vec![3],
        // 1297036692682702592
        vec![0, 255, 255, 255, 255, 255, 255, 17],
        // 1297036692682702717
        vec![125, 255, 255, 255, 255, 255, 255, 17],
        // 5
        vec![5],
        // 1
        vec![1],
    ];
    kani::concrete_playback_run(concrete_vals, c05_l3_definite_int_int);
}
