/// Test generated for harness `storage::row_group_pruning::verif_kani::c05_l2_check_i32_stats_int64col` 
///
/// Check for `assertion`: "assertion failed: r"

#[test]
fn kani_concrete_playback_c05_l2_check_i32_stats_int64col_11396187571777489905() {
    let concrete_vals: Vec<Vec<u8>> = vec![
        // 1
        vec![1],
        // -1
        vec![255, 255, 255, 255, 255, 255, 255, 255],
        // 1
        vec![1],
        // 9223372035781033983
        vec![255, 255, 255, 191, 255, 255, 255, 127],
        // 1
        vec![1],
        // 18446744073709551615
        vec![255, 255, 255, 255, 255, 255, 255, 255],
        // -1
        vec![255, 255, 255, 255, 255, 255, 255, 255],
        // -1
        vec![255, 255, 255, 255],
        // 5
        vec![5],
        // 0
        vec![0],
    ];
    kani::concrete_playback_run(concrete_vals, c05_l2_check_i32_stats_int64col);
}
