/// Test generated for harness `physical::operators::spillable::verif_kani::merge_c::c25_kx_merge_step_keeps_pending_rows_b2` 
///
/// Check for `assertion`: "assertion failed: res.is_ok()"

#[test]
fn kani_concrete_playback_c25_kx_merge_step_keeps_pending_rows_b2_10632543504831404051() {
    let concrete_vals: Vec<Vec<u8>> = vec![
        // 511997ul
        vec![253, 207, 7, 0, 0, 0, 0, 0],
        // 536578ul
        vec![2, 48, 8, 0, 0, 0, 0, 0],
        // 1
        vec![1],
        // 208897ul
        vec![1, 48, 3, 0, 0, 0, 0, 0],
        // 647170ul
        vec![2, 224, 9, 0, 0, 0, 0, 0],
        // 128
        vec![128],
        // 1265663ul
        vec![255, 79, 19, 0, 0, 0, 0, 0],
        // 208898ul
        vec![2, 48, 3, 0, 0, 0, 0, 0],
        // 1
        vec![1],
        // 208897ul
        vec![1, 48, 3, 0, 0, 0, 0, 0],
        // 57347ul
        vec![3, 224, 0, 0, 0, 0, 0, 0],
        // 128
        vec![128],
        // 0ul
        vec![0, 0, 0, 0, 0, 0, 0, 0],
        // 1ul
        vec![1, 0, 0, 0, 0, 0, 0, 0],
        // 1ul
        vec![1, 0, 0, 0, 0, 0, 0, 0],
    ];
    kani::concrete_playback_run(concrete_vals, c25_kx_merge_step_keeps_pending_rows_b2);
}
