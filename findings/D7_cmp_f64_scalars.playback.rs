/// Test generated for harness `physical::compiled_expr::verif_kani::c06_cmp_f64_scalars` 
///
/// Check for `assertion`: "assertion failed: (m[0][0] != 0) == interp_f64(op, x, y)"

#[test]
fn kani_concrete_playback_c06_cmp_f64_scalars_16985187046320077985() {
    let concrete_vals: Vec<Vec<u8>> = vec![
        // 0
        vec![0, 0, 0, 0, 0, 0, 0, 0],
        // -0
        vec![0, 0, 0, 0, 0, 0, 0, 128],
        // 1
        vec![1],
    ];
    kani::concrete_playback_run(concrete_vals, c06_cmp_f64_scalars);
}
