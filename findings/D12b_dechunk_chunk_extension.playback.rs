/// Test generated for harness `metastore::gravitino::verif_kani::c41_b_chunk_extension_ignored` 
///
/// Check for `assertion`: "assertion failed: out.is_some()"
///
/// # Warning
///
/// Concrete playback tests combined with stubs or contracts is highly
/// experimental, and subject to change.
///
/// The original harness has stubs which are not applied to this test.
/// This may cause a mismatch of non-deterministic values if the stub
/// creates any non-deterministic value.
/// The execution path may also differ, which can be used to refine the stub
/// logic.

#[test]
fn kani_concrete_playback_c41_b_chunk_extension_ignored_13498238226161582682() {
    let concrete_vals: Vec<Vec<u8>> = vec![
        // 255
        vec![255],
        // 109
        vec![109],
    ];
    kani::concrete_playback_run(concrete_vals, c41_b_chunk_extension_ignored);
}
