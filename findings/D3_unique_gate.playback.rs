/// Test generated for harness `optimizer::rules::packed_join_keys::verif_kani::c03_g4_unique_gate` 
///
/// Check for `assertion`: "assertion failed: !has_dup(&rows)"

#[test]
fn kani_concrete_playback_c03_g4_unique_gate_8392305628485862037() {
    let concrete_vals: Vec<Vec<u8>> = vec![
        // 1
        vec![1],
        // 812
        vec![44, 3, 0, 0, 0, 0, 0, 0],
        // 1
        vec![1],
        // -512
        vec![0, 254, 255, 255, 255, 255, 255, 255],
        // 1
        vec![1],
        // -512
        vec![0, 254, 255, 255, 255, 255, 255, 255],
    ];
    kani::concrete_playback_run(concrete_vals, c03_g4_unique_gate);
}
