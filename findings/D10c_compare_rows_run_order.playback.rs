/// Test generated for harness `physical::operators::spillable::verif_kani::rows_c::c25_kx_compare_rows_is_run_order` 
///
/// Check for `assertion`: "assertion failed: got == want"

#[test]
fn kani_concrete_playback_c25_kx_compare_rows_is_run_order_1805593360179998844() {
    let concrete_vals: Vec<Vec<u8>> = vec![
        // 2ul
        vec![2, 0, 0, 0, 0, 0, 0, 0],
        // 0
        vec![0],
        // 0
        vec![0],
        // 1
        vec![1],
        // -1
        vec![255, 255, 255, 255, 255, 255, 255, 255],
        // 1
        vec![1],
        // -1
        vec![255, 255, 255, 255, 255, 255, 255, 255],
        // 1
        vec![1],
        // 4611686018427387905
        vec![1, 0, 0, 0, 0, 0, 0, 64],
        // 1
        vec![1],
        // 4611686018427387904
        vec![0, 0, 0, 0, 0, 0, 0, 64],
        // 1
        vec![1],
        // -1
        vec![255, 255, 255, 255, 255, 255, 255, 255],
        // 1
        vec![1],
        // -1
        vec![255, 255, 255, 255, 255, 255, 255, 255],
        // 1
        vec![1],
        // 1
        vec![1],
        // 1
        vec![1],
        // 0
        vec![0],
        // 1ul
        vec![1, 0, 0, 0, 0, 0, 0, 0],
        // 1ul
        vec![1, 0, 0, 0, 0, 0, 0, 0],
    ];
    kani::concrete_playback_run(concrete_vals, c25_kx_compare_rows_is_run_order);
}
