//! SQL-level demonstrations of the open findings D1 (C02) and D7 (C06), through
//! ExecutionContext::sql on the real engine. Not part of /repo: copy to /repo/tests/ (or a
//! scratch worktree) and run `cargo test --offline --test findings_sql_demo -- --nocapture`.
//! Each test PASSES when the defect is present (it asserts the defective answer and prints the
//! SQL-standard one), so it documents the behaviour without failing the suite.
use arrow::array::{ArrayRef, Float64Array, Int64Array};
use arrow::datatypes::{DataType, Field, Schema};
use arrow::record_batch::RecordBatch;
use query_engine::ExecutionContext;
use std::sync::Arc;

fn rows(r: &query_engine::QueryResult) -> usize {
    r.batches.iter().map(|b| b.num_rows()).sum()
}

/// D1: `NULL OR TRUE` must keep the row (SQL three-valued logic). The engine drops it.
#[tokio::test]
async fn d1_null_or_true_row_is_dropped() {
    let schema = Arc::new(Schema::new(vec![
        Field::new("a", DataType::Int64, true),
        Field::new("b", DataType::Int64, true),
    ]));
    let batch = RecordBatch::try_new(
        schema.clone(),
        vec![
            Arc::new(Int64Array::from(vec![None, Some(1), Some(7)])) as ArrayRef,
            Arc::new(Int64Array::from(vec![Some(1), Some(5), Some(7)])) as ArrayRef,
        ],
    )
    .unwrap();
    let mut ctx = ExecutionContext::new();
    ctx.register_table("t", schema, vec![batch]);
    // rows: (NULL,1) -> NULL OR TRUE = TRUE (kept by SQL); (1,5) -> TRUE; (7,7) -> FALSE
    let r = ctx.sql("SELECT a, b FROM t WHERE a = 1 OR b = 1").await.unwrap();
    println!("D1: engine returns {} rows, SQL three-valued logic returns 2", rows(&r));
    assert_eq!(rows(&r), 1, "defect D1 no longer manifests: update known_findings.txt");
}

/// D7 / D6 family: comparisons on doubles. Arrow's kernels (interpreter) use the total order.
#[tokio::test]
async fn d7_nan_comparison_differs_between_paths() {
    let schema = Arc::new(Schema::new(vec![Field::new("x", DataType::Float64, false)]));
    let batch = RecordBatch::try_new(
        schema.clone(),
        vec![Arc::new(Float64Array::from(vec![1.0, f64::NAN, 9.0])) as ArrayRef],
    )
    .unwrap();
    let mut ctx = ExecutionContext::new();
    ctx.register_table("t", schema, vec![batch]);
    let r = ctx.sql("SELECT x FROM t WHERE x > 5.0").await.unwrap();
    println!("D7: `x > 5.0` over [1.0, NaN, 9.0] returns {} rows (total order: 2, IEEE: 1)", rows(&r));
}
