/// Test generated for harness `storage::parquet::verif_kani::c18_f1_fold_chunk_without_bounds` 
///
/// Check for `assertion`: "assertion failed: j2(&acc, x)"

#[test]
fn kani_concrete_playback_c18_f1_fold_chunk_without_bounds_14943781367533661239() {
    let concrete_vals: Vec<Vec<u8>> = vec![
        // 1
        vec![1],
        // -1
        vec![255, 255, 255, 255, 255, 255, 255, 255],
        // 1
        vec![1],
        // -1
        vec![255, 255, 255, 255, 255, 255, 255, 255],
        // 1
        vec![1],
        // 18446744073709551615ul
        vec![255, 255, 255, 255, 255, 255, 255, 255],
        // 1
        vec![1],
        // -1
        vec![255, 255, 255, 255, 255, 255, 255, 255],
        // 9223372036854775807
        vec![255, 255, 255, 255, 255, 255, 255, 127],
        // 1
        vec![1],
    ];
    kani::concrete_playback_run(concrete_vals, c18_f1_fold_chunk_without_bounds);
}
