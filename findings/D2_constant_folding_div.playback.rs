/// Test generated for harness `optimizer::rules::constant_folding::verif_kani::c02_o4_eval_int64_div` 
///
/// Check for `assertion`: "attempt to divide with overflow"

#[test]
fn kani_concrete_playback_c02_o4_eval_int64_div_470512525014107885() {
    let concrete_vals: Vec<Vec<u8>> = vec![
        // -9223372036854775808
        vec![0, 0, 0, 0, 0, 0, 0, 128],
        // -1
        vec![255, 255, 255, 255, 255, 255, 255, 255],
    ];
    kani::concrete_playback_run(concrete_vals, c02_o4_eval_int64_div);
}
