/// Test generated for harness `optimizer::rules::packed_join_keys::verif_kani::c03_g3_eager_pack_twin` 
///
/// Check for `assertion`: "assertion failed: p.is_some() && q.is_some()"

#[test]
fn kani_concrete_playback_c03_g3_eager_pack_twin_3172689750005732275() {
    let concrete_vals: Vec<Vec<u8>> = vec![
        // 9223372036854775807
        vec![255, 255, 255, 255, 255, 255, 255, 127],
        // 9223372036854775807
        vec![255, 255, 255, 255, 255, 255, 255, 127],
        // 9223372036854775807
        vec![255, 255, 255, 255, 255, 255, 255, 127],
        // 9223372036854775807
        vec![255, 255, 255, 255, 255, 255, 255, 127],
        // 9223372036854775807
        vec![255, 255, 255, 255, 255, 255, 255, 127],
        // 9223372036854775807
        vec![255, 255, 255, 255, 255, 255, 255, 127],
    ];
    kani::concrete_playback_run(concrete_vals, c03_g3_eager_pack_twin);
}
