/// Test generated for harness `physical::compiled_expr::verif_kani::c02_o2_compiled_validity_kleene` 
///
/// Check for `assertion`: "assertion failed: kept == (sql == T)"

#[test]
fn kani_concrete_playback_c02_o2_compiled_validity_kleene_17086170276709329909() {
    let concrete_vals: Vec<Vec<u8>> = vec![
        // 0
        vec![0],
        // 1
        vec![1],
        // 0
        vec![0],
        // 1
        vec![1],
        // 1
        vec![1],
        // 1
        vec![1],
        // 1
        vec![1],
    ];
    kani::concrete_playback_run(concrete_vals, c02_o2_compiled_validity_kleene);
}
