/// Test generated for harness `storage::parquet::verif_kani::c18_f3_ndv_est_upper_bound` 
///
/// Check for `assertion`: "attempt to subtract with overflow"

#[test]
fn kani_concrete_playback_c18_f3_ndv_est_upper_bound_3663103924818533332() {
    let concrete_vals: Vec<Vec<u8>> = vec![
        // 1
        vec![1],
        // -9223372036854775807
        vec![1, 0, 0, 0, 0, 0, 0, 128],
        // 1
        vec![1],
        // 9223372036854775807
        vec![255, 255, 255, 255, 255, 255, 255, 127],
        // 1
        vec![1],
        // 18446744073709551615ul
        vec![255, 255, 255, 255, 255, 255, 255, 255],
        // 1
        vec![1],
        // 18446744073709551615ul
        vec![255, 255, 255, 255, 255, 255, 255, 255],
    ];
    kani::concrete_playback_run(concrete_vals, c18_f3_ndv_est_upper_bound);
}
