//! Demonstrations (verif): the spilled path of ExternalSortExec against SortExec on the same input.
use arrow::array::*;
use arrow::datatypes::{DataType, Field, Schema};
use arrow::record_batch::RecordBatch;
use futures::TryStreamExt;
use query_engine::execution::{MemoryPool, SharedMemoryPool};
use query_engine::physical::{ExternalSortExec, MemoryTableExec, PhysicalOperator, SortExec};
use query_engine::planner::{Expr, SortExpr};
use query_engine::ExecutionConfig;
use std::sync::Arc;

fn pool() -> SharedMemoryPool {
    Arc::new(MemoryPool::new(1 << 30))
}
fn cfg(name: &str) -> ExecutionConfig {
    ExecutionConfig::new()
        .with_memory_limit(1)
        .with_spill_path(std::env::temp_dir().join(format!("verif_spill_{name}")))
}
async fn rows(op: Arc<dyn PhysicalOperator>) -> Vec<String> {
    let s = op.execute(0).await.unwrap();
    let bs: Vec<RecordBatch> = s.try_collect().await.unwrap();
    let mut out = vec![];
    for b in &bs {
        for r in 0..b.num_rows() {
            let mut cells = vec![];
            for c in b.columns() {
                cells.push(if c.is_null(r) {
                    "NULL".to_string()
                } else {
                    arrow::util::display::array_value_to_string(c, r).unwrap()
                });
            }
            out.push(cells.join("|"));
        }
    }
    out
}
fn input(cols: Vec<(&str, ArrayRef)>, chunk: usize) -> Arc<dyn PhysicalOperator> {
    let schema = Arc::new(Schema::new(
        cols.iter().map(|(n, a)| Field::new(*n, a.data_type().clone(), true)).collect::<Vec<_>>(),
    ));
    let whole = RecordBatch::try_new(schema.clone(), cols.into_iter().map(|(_, a)| a).collect()).unwrap();
    let mut batches = vec![];
    let mut o = 0;
    while o < whole.num_rows() {
        let l = chunk.min(whole.num_rows() - o);
        batches.push(whole.slice(o, l));
        o += l;
    }
    Arc::new(MemoryTableExec::new("t", schema, batches, None))
}
async fn compare(name: &str, inp: Arc<dyn PhysicalOperator>, order: Vec<SortExpr>, fetch: Option<usize>) {
    let full = match fetch {
        Some(k) => SortExec::with_fetch(inp.clone(), order.clone(), k),
        None => SortExec::new(inp.clone(), order.clone()),
    };
    let ext = match fetch {
        Some(k) => ExternalSortExec::with_fetch(inp.clone(), order.clone(), pool(), cfg(name), k),
        None => ExternalSortExec::new(inp.clone(), order.clone(), pool(), cfg(name)),
    };
    let want = rows(Arc::new(full)).await;
    let got = rows(Arc::new(ext)).await;
    assert_eq!(got, want, "{name}: spilled sort differs from full sort");
}

#[tokio::test]
async fn spilled_nulls_first_asc() {
    let a: ArrayRef = Arc::new(Int64Array::from(vec![Some(3), None, Some(1), Some(2), None, Some(0)]));
    compare("nf", input(vec![("a", a)], 2), vec![SortExpr::new(Expr::column("a")).asc().nulls_first()], None).await;
}
#[tokio::test]
async fn spilled_nulls_last_desc() {
    let a: ArrayRef = Arc::new(Int64Array::from(vec![Some(3), None, Some(1), Some(2), None, Some(0)]));
    compare("nld", input(vec![("a", a)], 2), vec![SortExpr::new(Expr::column("a")).desc().nulls_last()], None).await;
}
#[tokio::test]
async fn spilled_nan() {
    let a: ArrayRef = Arc::new(Float64Array::from(vec![1.0, f64::NAN, 2.0, 5.0, 3.0, 4.0]));
    compare("nan", input(vec![("a", a)], 2), vec![SortExpr::new(Expr::column("a")).asc().nulls_last()], None).await;
}
#[tokio::test]
async fn spilled_unhandled_key_type() {
    let a: ArrayRef = Arc::new(Int16Array::from(vec![5i16, 9, 1, 2, 7, 0]));
    compare("i16", input(vec![("a", a)], 2), vec![SortExpr::new(Expr::column("a")).asc().nulls_last()], None).await;
}
#[tokio::test]
async fn spilled_fetch() {
    let a: ArrayRef = Arc::new(Int64Array::from(vec![5i64, 9, 1, 2, 7, 0]));
    compare("fetch", input(vec![("a", a)], 2), vec![SortExpr::new(Expr::column("a")).asc().nulls_last()], Some(2)).await;
}
#[tokio::test]
async fn spilled_long_runs() {
    // two runs of 10_000 rows each (> the 8192-row merge buffer)
    let n = 20_000i64;
    let a: ArrayRef = Arc::new(Int64Array::from((0..n).map(|i| (i * 7919) % n).collect::<Vec<_>>()));
    let inp = input(vec![("a", a)], 10_000);
    let order = vec![SortExpr::new(Expr::column("a")).asc().nulls_last()];
    let ext = ExternalSortExec::new(
        inp.clone(),
        order.clone(),
        pool(),
        ExecutionConfig::new().with_memory_limit(100_000).with_spill_path(std::env::temp_dir().join("verif_spill_long")),
    );
    let want = rows(Arc::new(SortExec::new(inp, order))).await;
    let got = rows(Arc::new(ext)).await;
    assert_eq!(got.len(), want.len(), "row count");
    assert_eq!(got, want, "long runs: spilled sort differs from full sort");
}
