"""Lane V: build a single-file Verus unit from a template (.vrs) and the real source.

The template carries ONLY specification text (spec fns, lemmas, requires /
ensures / invariants / proof blocks, carrier types). Every executable statement
comes from /repo's current source through `//@` directives that move a cursor
through a declared region of a real function; the cursor must consume the whole
region, so no real statement can be silently left out. The only departures from
verbatim copying are the declared rewrites (R1..R6), each of which states the
exact real text it expects (whitespace-normalised) and is logged.

Directives (one per line, `//@` first non-blank):
  //@ REGION file=<path> fn=<name> [within="<item head>"] [fn_ordinal=n] (body | first="<lead>"|after="<lead of the preceding statement>" last="<lead>"|END | loop=<n>)
  //@ SIG "<expected real signature, whitespace-normalised>"
  //@ COPY UNTIL "<lead>"            copy everything up to (excluding) the statement starting with <lead>
  //@ COPY UNTIL CLOSE               copy up to the end of the innermost block opened by HEAD
  //@ COPY UNTIL END                 copy everything up to the end of the region
  //@ COPY STMT [DROP "<field>:" ...]  copy exactly one statement (R1: drop the named struct-literal fields)
  //@ HEAD                           copy a loop / if header up to its `{` (brace not emitted: the template continues with invariants and `{`)
  //@ CLOSE [QUIET]                  consume the matching `}` (emits `}` unless QUIET)
  (REGION option `continue_as_return`: the region is a loop body verified as a function; R2b rewrites that loop's `continue;` to `return;`)
  //@ REPLACE STMT|HEAD EXPECT "<real text>" WITH "<new text>" RULE <Rn>
  //@ REPLACE BODY EXPECT "<real text up to the end of the open block>" WITH "<new text>" RULE <Rn>
  //@ SKIP STMT EXPECT "<real text>" RULE <Rn>
  //@ END                            cursor must be at the end of the region
  //@ INCLUDE <file>                 splice a shared specification file (spec text only)
"""
import os, re, sys, shlex
sys.path.insert(0, os.path.dirname(__file__))
import rsx
from rsx import AnchorLost


def norm(s):
    return re.sub(r"\s+", " ", s).strip()


class Builder:
    def __init__(self, repo):
        self.repo = repo
        self.out = []        # (text_line, origin) origin = ("code", file, line) | ("spec",)
        self.log = []        # rewrites applied / dropped
        self.regions = []
        self.src = None
        self.cur = self.end = 0
        self.stack = []
        self.file = None

    # ---- helpers on the real source
    def _skip_ws(self):
        m = self.src.masked
        while self.cur < self.end and (m[self.cur] in " \t\r\n"):
            self.cur += 1

    def _emit_code(self, a, b, transform=None):
        text = self.src.text[a:b]
        if transform:
            text = transform(text)
        if getattr(self, "cont_as_ret", False) and re.search(r"\bcontinue\b", self.src.masked[a:b]):
            # R2b: the region is a loop BODY verified as a function; `continue` of that loop is
            # the function's `return`. Only legal outside inner loops.
            # stack[0] is the loop whose body this unit is; anything deeper is an inner block opened by HEAD
            if len(self.stack) > 1 or re.search(r"\b(for|while|loop)\b", self.src.masked[a:b]):
                raise AnchorLost(f"{self.file}:{self.src.line_of(a)}: `continue` inside an inner loop of a loop-body unit (unsupported)")
            n = len(re.findall(r"\bcontinue\s*;", text))
            text = re.sub(r"\bcontinue\s*;", self.cont_text, text)
            self.log.append({"rule": "R2b", "real": "continue;", "verified_as": self.cont_text, "at": f"{self.file}:{self.src.line_of(a)}", "count": n})
        line = self.src.line_of(a)
        # keep leading indentation of first line
        ls = self.src.text.rfind("\n", 0, a) + 1
        indent = self.src.text[ls:a] if self.src.text[ls:a].strip() == "" else ""
        lines = (indent + text).split("\n")
        for i, l in enumerate(lines):
            self.out.append((l, ("code", self.file, line + i)))

    def _emit_spec(self, l):
        self.out.append((l, ("spec",)))

    def _depth0_find(self, lead):
        """first position >= cur, at block depth 0 relative to cur, of a line starting with lead"""
        m = self.src.masked
        depth = 0
        k = self.cur
        limit = self.stack[-1] if self.stack else self.end
        pat = re.compile(r"[ \t]*" + re.escape(lead))
        at_line_start = self.src.text[self.src.text.rfind("\n", 0, k) + 1:k].strip() == ""
        while k < limit:
            if at_line_start and depth == 0:
                mm = pat.match(self.src.text, k)
                if mm and m[mm.end() - 1] == self.src.text[mm.end() - 1]:
                    ws = re.match(r"[ \t]*", self.src.text[k:]).end()
                    return k + ws
            ch = m[k]
            if ch in "([{":
                depth += 1
            elif ch in ")]}":
                depth -= 1
            at_line_start = ch == "\n"
            k += 1
        raise AnchorLost(f"{self.file}: statement starting `{lead}` not found after line {self.src.line_of(self.cur)}")

    # ---- directives
    def region(self, kv):
        self.file = kv["file"]
        self.src = rsx.Source(os.path.join(self.repo, self.file))
        name, within, fo = kv["fn"], kv.get("within"), int(kv.get("fn_ordinal", 0))
        s, o, c = self.src.find_fn(name, within, fo)
        self.sig = norm(self.src.text[s:o])
        if "body" in kv:
            self.cur, self.end = o + 1, c
        elif "loop" in kv:
            a, e = self.src.nth_loop(name, int(kv["loop"]), within, fo)
            if kv.get("part") == "body":
                # the loop body only
                k = a
                depth = 0
                while True:
                    ch = self.src.masked[k]
                    if ch in "([":
                        depth += 1
                    elif ch in ")]":
                        depth -= 1
                    elif ch == "{" and depth == 0:
                        break
                    k += 1
                self.cur, self.end = k + 1, e - 1
            else:
                self.cur, self.end = a, e
        else:
            if "after" in kv:
                a = self.src.after_stmt(kv["after"], o + 1, c)
            else:
                a = self.src._find_line(kv["first"], o + 1, c, int(kv.get("first_ordinal", 0)))
            if kv["last"] == "END":
                b = c
            else:
                bpos = self.src._find_line(kv["last"], self.src.text.rfind("\n", 0, a) + 1, c, 0)
                b = self.src._stmt_end(bpos, c)
            self.cur, self.end = a, b
        self.stack = []
        self.cont_as_ret = "continue_as_return" in kv
        self.cont_text = kv["continue_as_return"] if isinstance(kv.get("continue_as_return"), str) else "return;"
        self.regions.append({"file": self.file, "fn": name, "lines": [self.src.line_of(self.cur), self.src.line_of(max(self.cur, self.end - 1))]})

    def check_sig(self, expected):
        if norm(expected) != self.sig:
            raise AnchorLost(f"{self.file}: signature changed: real `{self.sig}` expected `{norm(expected)}`")

    def copy_until(self, what):
        self._skip_ws()
        if what == "END":
            if self.stack:
                raise AnchorLost("COPY UNTIL END inside an open block")
            b = self.end
        elif what == "CLOSE":
            if not self.stack:
                raise AnchorLost("COPY UNTIL CLOSE outside a block")
            b = self.stack[-1]
        else:
            b = self._depth0_find(what)
        # trim trailing whitespace of the copied piece
        e = b
        while e > self.cur and self.src.text[e - 1] in " \t\n":
            e -= 1
        if e > self.cur:
            self._emit_code(self.cur, e)
        self.cur = b

    def _stmt(self):
        self._skip_ws()
        limit = self.stack[-1] if self.stack else self.end
        e = self.src._stmt_end(self.cur, limit)
        return self.cur, e

    def copy_stmt(self, drops):
        a, e = self._stmt()

        def drop_fields(text):
            for f in drops:
                # remove `f <expr>,` at bracket depth 1 of the struct literal
                pat = re.compile(r"(?m)^[ \t]*" + re.escape(f) + r"(?:[^\n]*,)?[ \t]*\n")
                text, n = pat.subn("", text, count=1)
                if n != 1:
                    raise AnchorLost(f"{self.file}: field `{f}` to drop not found (R1)")
                self.log.append({"rule": "R1", "dropped": f.rstrip(":"), "at": f"{self.file}:{self.src.line_of(a)}"})
            return text

        self._emit_code(a, e, drop_fields if drops else None)
        self.cur = e

    def head(self, replace=None, expect=None, rule=None):
        self._skip_ws()
        m = self.src.masked
        k = self.cur
        depth = 0
        while k < self.end:
            ch = m[k]
            if ch in "([":
                depth += 1
            elif ch in ")]":
                depth -= 1
            elif ch == "{" and depth == 0:
                break
            k += 1
        hdr = self.src.text[self.cur:k].rstrip()
        if expect is not None:
            if norm(hdr) != norm(expect):
                raise AnchorLost(f"{self.file}:{self.src.line_of(self.cur)}: header is `{norm(hdr)}`, rewrite {rule} expects `{norm(expect)}`")
            if replace.strip():
                self.out.append((replace, ("code", self.file, self.src.line_of(self.cur))))
            self.log.append({"rule": rule, "real": norm(hdr), "verified_as": replace or "(the loop-body function's signature)", "at": f"{self.file}:{self.src.line_of(self.cur)}"})
        else:
            self._emit_code(self.cur, self.cur + len(hdr))
        self.stack.append(self.src.match_close(k))
        self.cur = k + 1

    def close(self, quiet=False):
        self._skip_ws()
        if not self.stack or self.cur != self.stack[-1]:
            got = norm(self.src.text[self.cur:self.cur + 60])
            raise AnchorLost(f"{self.file}:{self.src.line_of(self.cur)}: expected end of block, found `{got}` (real code has statements the unit does not cover)")
        self.stack.pop()
        if not quiet:
            self.out.append(("}", ("code", self.file, self.src.line_of(self.cur))))
        self.cur += 1

    def replace_stmt(self, expect, new, rule, skip=False):
        a, e = self._stmt()
        real = norm(self.src.text[a:e])
        if real != norm(expect):
            raise AnchorLost(f"{self.file}:{self.src.line_of(a)}: statement is `{real}`, rewrite {rule} expects `{norm(expect)}`")
        if not skip:
            self.out.append((new, ("code", self.file, self.src.line_of(a))))
        self.log.append({"rule": rule, "real": real, "verified_as": None if skip else new, "at": f"{self.file}:{self.src.line_of(a)}"})
        self.cur = e

    def replace_body(self, expect, new, rule):
        """replace everything up to the close of the innermost open block (R7: error payloads)"""
        self._skip_ws()
        if not self.stack:
            raise AnchorLost("REPLACE BODY outside a block")
        b = self.stack[-1]
        real = norm(self.src.text[self.cur:b])
        if real != norm(expect):
            raise AnchorLost(f"{self.file}:{self.src.line_of(self.cur)}: block body is `{real[:120]}`, rewrite {rule} expects `{norm(expect)[:120]}`")
        self.out.append((new, ("code", self.file, self.src.line_of(self.cur))))
        self.log.append({"rule": rule, "real": real, "verified_as": new, "at": f"{self.file}:{self.src.line_of(self.cur)}"})
        self.cur = b

    def end_region(self):
        self._skip_ws()
        if self.stack:
            raise AnchorLost("END with open blocks")
        if self.cur < self.end:
            got = norm(self.src.text[self.cur:self.cur + 60])
            raise AnchorLost(f"{self.file}:{self.src.line_of(self.cur)}: region not fully covered, next real text `{got}`")


def _kv(rest):
    kv = {}
    for tok in shlex.split(rest):
        if "=" in tok:
            k, v = tok.split("=", 1)
            kv[k] = v
        else:
            kv[tok] = True
    return kv


def build(template_path, repo="/repo"):
    """Returns (text, linemap, log, regions). Raises AnchorLost."""
    b = Builder(repo)
    for raw in open(template_path).read().split("\n"):
        s = raw.strip()
        if not s.startswith("//@"):
            b._emit_spec(raw)
            continue
        d = s[3:].strip()
        toks = shlex.split(d)
        op = toks[0]
        if op == "REGION":
            b.region(_kv(d[len("REGION"):]))
        elif op == "SIG":
            b.check_sig(toks[1])
        elif op == "COPY" and toks[1] == "UNTIL":
            b.copy_until(toks[2])
        elif op == "COPY" and toks[1] == "STMT":
            drops = toks[3:] if len(toks) > 2 and toks[2] == "DROP" else []
            b.copy_stmt(drops)
        elif op == "HEAD":
            b.head()
        elif op == "CLOSE":
            b.close(quiet=len(toks) > 1 and toks[1] == "QUIET")
        elif op == "REPLACE":
            kind = toks[1]
            assert toks[2] == "EXPECT" and toks[4] == "WITH" and toks[6] == "RULE", d
            if kind == "HEAD":
                b.head(replace=toks[5], expect=toks[3], rule=toks[7])
            elif kind == "BODY":
                b.replace_body(toks[3], toks[5], toks[7])
            else:
                b.replace_stmt(toks[3], toks[5], toks[7])
        elif op == "SKIP":
            assert toks[1] == "STMT" and toks[2] == "EXPECT" and toks[4] == "RULE", d
            b.replace_stmt(toks[3], None, toks[5], skip=True)
        elif op == "END":
            b.end_region()
        elif op == "INCLUDE":
            inc = os.path.join(os.path.dirname(template_path), toks[1])
            for l in open(inc).read().split("\n"):
                b._emit_spec(l)
        elif op == "NOTE":
            b.log.append({"rule": "note", "text": d[4:].strip()})
        else:
            raise SystemExit(f"{template_path}: unknown directive {d}")
    text = "\n".join(l for l, _ in b.out) + "\n"
    linemap = [o for _, o in b.out]
    return text, linemap, b.log, b.regions


if __name__ == "__main__":
    t, lm, log, regs = build(sys.argv[1], sys.argv[2] if len(sys.argv) > 2 else "/repo")
    sys.stdout.write(t)
    sys.stderr.write(repr(log) + "\n" + repr(regs) + "\n")
