"""Run one lane-V unit: build from template + real source, verify, classify errors."""
import json, os, re, subprocess, sys, time
sys.path.insert(0, os.path.dirname(__file__))
import vx
from rsx import AnchorLost

VERIF = os.path.dirname(os.path.dirname(os.path.abspath(__file__)))
WORK = os.path.join(VERIF, ".cache", "verus")


def _run_verus(path, timeout):
    t0 = time.time()
    try:
        p = subprocess.run(["verus", path, "--output-json", "--time", "--error-format=json", "--multiple-errors", "8"],
                           capture_output=True, text=True, timeout=timeout, cwd=os.path.dirname(path))
    except subprocess.TimeoutExpired:
        return None, [], time.time() - t0, "timeout"
    txt = p.stdout
    diags = []
    for line in (p.stderr + "\n" + p.stdout).split("\n"):
        if line.startswith("{") and '"message"' in line and '"spans"' in line:
            try:
                diags.append(json.loads(line))
            except Exception:
                pass
    res = None
    i = txt.find("{\n")
    if i >= 0:
        try:
            res = json.loads(txt[i:])
        except Exception:
            res = None
    return res, diags, time.time() - t0, p.stderr[-3000:]


CODE_KINDS = [
    ("postcondition not satisfied", "postcondition"),
    ("invariant not satisfied", "invariant"),
    ("precondition not satisfied", "precondition"),
    ("requires not satisfied", "precondition"),
    ("possible arithmetic underflow/overflow", "overflow"),
    ("possible division by zero", "div0"),
    ("assertion failed", "assert"),
    ("decreases not satisfied", "termination"),
    ("loop must have a decreases", "termination"),
]


def _enclosing_mode(text_lines, ln):
    """'proof' | 'spec' | 'exec' for the function that encloses unit line ln"""
    for k in range(min(ln, len(text_lines)) - 1, -1, -1):
        m = re.match(r"\s*(?:pub(?:\([a-z]+\))?\s+)?(?:open\s+|closed\s+|uninterp\s+)?(proof|spec)?\s*fn\s+\w+", text_lines[k])
        if m:
            return m.group(1) or "exec"
    return "exec"


def classify(diags, linemap, text_lines=()):
    """-> (violations, proof_failures, tool_errors)"""
    viol, prooff, tool = [], [], []
    for d in diags:
        if d.get("level") != "error":
            continue
        msg = d["message"]
        if msg.startswith("aborting due to"):
            continue
        kind = None
        for pat, k in CODE_KINDS:
            if pat in msg:
                kind = k
                break
        prim = [s for s in d["spans"] if s.get("is_primary")] or d["spans"]
        origins = []
        for s in prim:
            ln = s["line_start"]
            o = linemap[ln - 1] if 0 < ln <= len(linemap) else ("spec",)
            origins.append((ln, o, s.get("text", [{}])[0].get("text", "").strip() if s.get("text") else ""))
        labels = [(s.get("label"), s["line_start"], (s.get("text") or [{}])[0].get("text", "").strip()) for s in d["spans"] if not s.get("is_primary")]
        rec = {"message": msg, "kind": kind,
               "at": [{"unit_line": ln, "repo": (f"{o[1]}:{o[2]}" if o[0] == "code" else None), "text": t} for ln, o, t in origins],
               "related": [{"label": l, "unit_line": ln, "text": t} for l, ln, t in labels]}
        if "rlimit" in msg.lower() or "resource limit" in msg.lower():
            tool.append(rec)
        elif kind is None:
            tool.append(rec)
        elif kind in ("postcondition", "invariant"):
            # a lemma's own postcondition / a proof-mode loop is proof text, not code
            if text_lines and origins and _enclosing_mode(text_lines, origins[0][0]) != "exec":
                prooff.append(rec)
            else:
                viol.append(rec)
        elif kind in ("precondition", "overflow", "div0", "termination"):
            if any(o[0] == "code" for _, o, _ in origins):
                viol.append(rec)
            else:
                prooff.append(rec)
        else:  # assert in proof text
            prooff.append(rec)
    return viol, prooff, tool


def run_unit(unit, repo="/repo", timeout=300):
    """unit: name of verus/<unit>.vrs. Returns a result dict; status in
    {'verified','violation','proof_broken','undecided'}."""
    os.makedirs(WORK, exist_ok=True)
    tpl = os.path.join(VERIF, "verus", unit + ".vrs")
    r = {"unit": unit, "lane": "V", "template": f"verus/{unit}.vrs"}
    try:
        text, linemap, log, regions = vx.build(tpl, repo)
    except AnchorLost as e:
        r.update(status="undecided", reason=f"anchor lost: {e}")
        return r
    r["rewrites"] = log
    r["regions"] = regions
    r["code_lines"] = sum(1 for o in linemap if o[0] == "code")
    path = os.path.join(WORK, unit + ".rs")
    open(path, "w").write(text)
    res, diags, secs, err = _run_verus(path, timeout)
    r["solver_s"] = round(secs, 2)
    if res is None:
        r.update(status="undecided", reason="verus produced no result: " + str(err)[-800:])
        return r
    vr = res["verification-results"]
    r["verified"] = vr.get("verified", 0)
    r["errors"] = vr.get("errors", 0)
    try:
        fb = res["times-ms"]["smt"]["smt-run-module-times"][0]["function-breakdown"]
        r["functions"] = [{"function": f["function"], "mode": f.get("mode:"), "ms": f["time"], "success": f["success"]} for f in fb]
    except Exception:
        r["functions"] = []
    viol, prooff, tool = classify(diags, linemap, text.split("\n"))
    if vr.get("success"):
        # vacuity guard: the same unit with `false` as an extra postcondition must fail
        vtext = re.sub(r"(?m)^(\s*)// VACUITY-PROBE\s*$", r"\1false,", text)
        if vtext != text:
            vpath = os.path.join(WORK, unit + "__vacuity.rs")
            open(vpath, "w").write(vtext)
            vres, vdiags, vsecs, _ = _run_verus(vpath, timeout)
            r["solver_s"] = round(secs + vsecs, 2)
            if vres is None or vres["verification-results"].get("success"):
                r.update(status="undecided", reason="vacuity guard: unit verifies with `ensures false` (contradictory precondition)")
                return r
            r["vacuity_guard"] = f"`ensures false` probe rejected ({vres['verification-results'].get('errors')} error(s))"
        else:
            r["vacuity_guard"] = "no probe marker in template"
        r["status"] = "verified"
        return r
    r["violations"] = viol
    r["proof_failures"] = prooff
    r["tool_errors"] = tool
    if vr.get("encountered-vir-error") or (not viol and not prooff):
        r.update(status="undecided", reason="verus rejected the unit (unsupported construct / type error / rlimit): " + "; ".join(t["message"] for t in tool)[:600])
    elif viol:
        r["status"] = "violation"
    else:
        r["status"] = "proof_broken"
    return r


if __name__ == "__main__":
    print(json.dumps(run_unit(sys.argv[1], sys.argv[2] if len(sys.argv) > 2 else "/repo"), indent=1))
