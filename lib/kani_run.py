"""Run a set of Kani harnesses in place on /repo's working tree and parse the results."""
import json, os, re, subprocess, sys, time, tempfile

VERIF = os.path.dirname(os.path.dirname(os.path.abspath(__file__)))
REPO = os.environ.get("VERIF_REPO", "/repo")
TARGET = os.environ.get("VERIF_KANI_TARGET", os.path.join(VERIF, ".cache", "kani-target"))

KANI_FLAGS = ["-Z", "function-contracts", "-Z", "stubbing", "-Z", "unstable-options"]


def kani_cmd(harnesses, jobs, harness_timeout, export_json, extra=()):
    cmd = ["cargo", "kani", "--target-dir", TARGET] + KANI_FLAGS + ["--exact"]
    for h in harnesses:
        cmd += ["--harness", h]
    cmd += ["--harness-timeout", harness_timeout, "--output-format", "terse", "--export-json", export_json, "-j", str(jobs)]
    cmd += list(extra)
    return cmd


def _unlimit_stack():
    # CBMC recurses deeply on large array expressions (measured: SIGSEGV, status 139, with the
    # default 8 MB stack on the [f64; 1024] register slabs of compiled_expr)
    import resource
    try:
        resource.setrlimit(resource.RLIMIT_STACK, (resource.RLIM_INFINITY, resource.RLIM_INFINITY))
    except Exception:
        pass


def run(harnesses, jobs=8, harness_timeout="10m", overall_timeout=3600, extra=()):
    """-> dict(status='ok'|'build_failed'|'timeout', results={harness: {...}}, wall_s, cmd, log_tail)"""
    fd, out_json = tempfile.mkstemp(prefix="kani_", suffix=".json", dir=os.path.join(VERIF, ".cache"))
    os.close(fd)
    os.unlink(out_json)
    cmd = kani_cmd(harnesses, jobs, harness_timeout, out_json, extra)
    env = dict(os.environ, CARGO_NET_OFFLINE="true")
    t0 = time.time()
    try:
        p = subprocess.run(cmd, cwd=REPO, env=env, capture_output=True, text=True, timeout=overall_timeout, preexec_fn=_unlimit_stack)
        log = p.stdout + "\n" + p.stderr
        rc = p.returncode
    except subprocess.TimeoutExpired as e:
        log = (e.stdout or b"").decode("utf8", "replace") if isinstance(e.stdout, bytes) else (e.stdout or "")
        rc = None
    wall = time.time() - t0
    res = {"cmd": "cd /repo && CARGO_NET_OFFLINE=true " + " ".join(cmd), "wall_s": round(wall, 1), "results": {}, "rc": rc}
    compile_err = re.findall(r"(?m)^error(?:\[E\d+\])?: .*$", log)
    if rc is None:
        res["status"] = "timeout"
    elif not os.path.exists(out_json):
        res["status"] = "build_failed"
        res["errors"] = compile_err[:10]
    else:
        res["status"] = "ok"
    res["log_tail"] = "\n".join(l for l in log.split("\n") if l.strip() and l.strip() != "..." and not l.startswith("warning") and not re.match(r"^\s*(-->|\||=|\d+ \|)", l))[-3000:]
    if os.path.exists(out_json):
        try:
            d = json.load(open(out_json))
        finally:
            os.unlink(out_json)
        pd = {x["harness_id"]: (x.get("property_details") or {}) for x in d.get("property_details", [])}
        cb = {x["harness_id"]: (x.get("cbmc_stats") or {}) for x in d.get("cbmc", [])}
        for r in d["verification_results"]["results"]:
            h = r["harness_id"]
            checks = r.get("checks", [])
            failed = [c for c in checks if c["status"] in ("Failure", "Undetermined")]
            covers = [c for c in checks if c.get("category") == "cover" or c["status"] in ("Satisfied", "Unsatisfiable", "Unreachable") and "cover" in c.get("description", "")]
            res["results"][h] = {
                "status": r["status"],
                "duration_s": round(r.get("duration_ms", 0) / 1000.0, 2),
                "counts": pd.get(h, {}),
                "solver_s": cb.get(h, {}).get("runtime_decision_procedure_s"),
                "symex_s": cb.get(h, {}).get("runtime_symex_s"),
                "failed_checks": [{"description": c["description"], "function": c.get("function"), "category": c.get("category"),
                                   "location": f'{c.get("location", {}).get("file")}:{c.get("location", {}).get("line")}', "status": c["status"]} for c in failed][:20],
                "covers_unsat": [c["description"] for c in checks if c["status"] in ("Unsatisfiable",)],
                "n_checks": len(checks),
            }
        res["kani_version"] = d["metadata"].get("kani_version")
        res["cbmc_version"] = d["tools"].get("cbmc")
    crashed = set(re.findall(r"Checking harness (\S+?)\.\.\.\s*\n(?:Thread \d+: )?CBMC failed with status (\d+)", log))
    res["cbmc_crash"] = bool(re.search(r"CBMC failed with status", log))
    # harnesses that never reported (timeout inside kani, ICE, ...)
    for h in harnesses:
        if h not in res["results"]:
            m = re.search(re.escape(h) + r"[^\n]*\n(?:[^\n]*\n){0,6}?[^\n]*(timed out|Timeout|TIMEOUT|out of memory|killed)", log)
            res["results"][h] = {"status": "NoResult", "reason": (m.group(1) if m else "no result reported (timeout, ICE or build failure)"), "failed_checks": [], "covers_unsat": [], "counts": {}, "n_checks": 0}
    return res


TOOL_LIMIT_PAT = re.compile(r"unwinding assertion|is not currently supported by Kani|unsupported|recursion unwinding|VERIF_ANCHOR_LOST|call to foreign", re.I)


def judge(r):
    """classify one harness result: 'pass' | 'fail' | 'undecided' (+reason)"""
    st = r["status"]
    if st == "Success":
        if r["covers_unsat"]:
            return "undecided", "vacuity guard: cover not satisfiable: " + "; ".join(r["covers_unsat"])[:300]
        return "pass", ""
    if st == "NoResult":
        return "undecided", r.get("reason", "")
    fc = r["failed_checks"]
    if not fc:
        return "undecided", f"status {st} without a failed check (timeout / solver error)"
    real = [c for c in fc if not TOOL_LIMIT_PAT.search(c["description"]) and c["status"] == "Failure"]
    if not real:
        return "undecided", "only tool-limit checks failed: " + "; ".join(c["description"] for c in fc)[:300]
    return "fail", "; ".join(f'{c["description"]} @ {c["location"]}' for c in real[:4])
