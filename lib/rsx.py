"""Mechanical extraction of functions, loops and regions from /repo's Rust source.

Nothing here interprets Rust: it lexes just enough (comments, strings, chars,
lifetimes) to match braces, and finds anchors by the leading text of a line.
A lost anchor raises AnchorLost; callers turn that into exit 2 (UNDECIDED),
never into a violation.
"""
import re


class AnchorLost(Exception):
    pass


def _mask(src):
    """Return src with comments / string / char literal contents replaced by
    spaces (same length, newlines kept), so brackets inside them are ignored."""
    out = list(src)
    i, n = 0, len(src)

    def blank(a, b):
        for k in range(a, b):
            if out[k] != "\n":
                out[k] = " "

    while i < n:
        c = src[i]
        if src.startswith("//", i):
            j = src.find("\n", i)
            j = n if j < 0 else j
            blank(i, j)
            i = j
        elif src.startswith("/*", i):
            depth, j = 1, i + 2
            while j < n and depth:
                if src.startswith("/*", j):
                    depth += 1
                    j += 2
                elif src.startswith("*/", j):
                    depth -= 1
                    j += 2
                else:
                    j += 1
            blank(i, j)
            i = j
        elif c == '"' or (c in "rb" and re.match(r'(?:br|rb|r|b)#*"', src[i:i + 12]) and not (i and (src[i - 1].isalnum() or src[i - 1] == "_"))):
            m = re.match(r'(br|rb|r|b)?(#*)"', src[i:i + 12])
            raw = m.group(1) and "r" in m.group(1)
            hashes = m.group(2)
            j = i + m.end()
            if raw:
                end = src.find('"' + hashes, j)
                end = n if end < 0 else end + 1 + len(hashes)
            else:
                while j < n and src[j] != '"':
                    j += 2 if src[j] == "\\" else 1
                end = j + 1
            blank(i + m.end() - 1 + 1, end - 1 - (len(hashes) if raw else 0))
            i = end
        elif c == "'":
            # char literal or lifetime
            m = re.match(r"'(\\.[^']*|[^\\'])'", src[i:i + 12])
            if m:
                blank(i + 1, i + m.end() - 1)
                i += m.end()
            else:
                i += 1
        else:
            i += 1
    return "".join(out)


class Source:
    def __init__(self, path):
        self.path = path
        self.text = open(path).read()
        self.masked = _mask(self.text)
        self.line_starts = [0]
        for m in re.finditer("\n", self.text):
            self.line_starts.append(m.end())

    def line_of(self, pos):
        import bisect
        return bisect.bisect_right(self.line_starts, pos)

    def match_close(self, open_pos):
        """position of the bracket closing the one at open_pos"""
        pairs = {"{": "}", "(": ")", "[": "]"}
        o = self.masked[open_pos]
        c = pairs[o]
        depth = 0
        for k in range(open_pos, len(self.masked)):
            ch = self.masked[k]
            if ch == o:
                depth += 1
            elif ch == c:
                depth -= 1
                if depth == 0:
                    return k
        raise AnchorLost(f"{self.path}: unbalanced bracket at offset {open_pos}")

    def find_fn(self, name, within=None, ordinal=0):
        """Locate `fn name`. `within` = text that must open an enclosing item
        (e.g. 'impl LimitState' or 'impl OptimizerRule for PackedJoinKeys').
        Returns (decl_start, body_open, body_close) character offsets."""
        lo, hi = 0, len(self.masked)
        if within:
            m = re.search(r"(?m)^[ \t]*" + re.escape(within) + r"(?!\w)[^{;]*\{", self.masked)
            if not m:
                raise AnchorLost(f"{self.path}: item `{within}` not found")
            lo = m.end() - 1
            hi = self.match_close(lo)
        hits = [m for m in re.finditer(r"\bfn\s+" + re.escape(name) + r"\b", self.masked[lo:hi])]
        # skip test modules' duplicates: keep textual order
        if len(hits) <= ordinal:
            raise AnchorLost(f"{self.path}: fn `{name}` (#{ordinal}) not found" + (f" in `{within}`" if within else ""))
        m = hits[ordinal]
        pos = lo + m.start()
        # the body is the first `{` at paren/bracket depth 0 after the signature
        k = lo + m.end()
        depth = 0
        while k < hi:
            ch = self.masked[k]
            if ch in "([":
                depth += 1
            elif ch in ")]":
                depth -= 1
            elif ch == "{" and depth == 0:
                break
            elif ch == ";" and depth == 0:
                raise AnchorLost(f"{self.path}: fn `{name}` has no body")
            k += 1
        close = self.match_close(k)
        # include attributes / doc comments directly above? no: decl start = line start of `fn`/`pub fn`
        ls = self.text.rfind("\n", 0, pos) + 1
        return ls, k, close

    def fn_text(self, name, within=None, ordinal=0):
        s, _, c = self.find_fn(name, within, ordinal)
        return self.text[s:c + 1], (self.line_of(s), self.line_of(c))

    def fn_signature(self, name, within=None, ordinal=0):
        s, o, _ = self.find_fn(name, within, ordinal)
        return self.text[s:o].strip()

    def _stmt_end(self, start, limit):
        """end offset (exclusive) of the statement beginning at `start`:
        first `;` at depth 0, or a `}` closing a block at depth 0 followed by
        a newline (block-like statement), whichever comes first."""
        depth = 0
        k = start
        while k < limit:
            ch = self.masked[k]
            if ch in "([{":
                depth += 1
            elif ch in ")]}":
                depth -= 1
                if depth < 0:
                    return k  # ran into the enclosing close: tail expression
                if depth == 0 and ch == "}":
                    # block statement ends here unless followed by else / ; / . / ?
                    rest = self.masked[k + 1:limit]
                    m = re.match(r"\s*(else\b|;|\.|\?|\)|,)", rest)
                    if not m:
                        return k + 1
                    if m.group(1) == ";":
                        return k + 1 + m.end()
            elif ch == ";" and depth == 0:
                return k + 1
            k += 1
        return limit

    def after_stmt(self, lead, lo, hi):
        """offset of the first statement that follows the statement starting with `lead`"""
        p = self._find_line(lead, lo, hi, 0)
        a = self._stmt_end(p, hi)
        while a < hi and self.masked[a] in " \t\n":
            a += 1
        if a >= hi:
            raise AnchorLost(f"{self.path}: nothing follows the statement starting `{lead}`")
        return a

    def region(self, name, first, last, within=None, ordinal=0, first_ordinal=0, until=None, after_loop=None, after=None):
        """Text of the statements of fn `name` from the statement whose line
        starts with `first` through the statement whose line starts with `last`
        (or through the end of the body when last == 'END'; or, with `until`,
        up to but excluding the first later line that starts with `until`)."""
        _, o, c = self.find_fn(name, within, ordinal)
        body_lo, body_hi = o + 1, c
        if after is not None:
            a = self.after_stmt(after, body_lo, body_hi)
        elif after_loop is not None:
            # start at the first statement that follows the after_loop-th loop of the function
            _, le = self.nth_loop(name, after_loop, within, ordinal)
            a = le
            while a < body_hi and self.masked[a] in " \t\n":
                a += 1
            if a >= body_hi:
                raise AnchorLost(f"{self.path}: nothing follows loop #{after_loop} of `{name}`")
        else:
            a = self._find_line(first, body_lo, body_hi, first_ordinal)
        if until is not None:
            b_end = self._find_line(until, a, body_hi, 0)
            b_end = self.text.rfind("\n", 0, b_end) + 1
            while b_end > a and self.text[b_end - 1] in " \t\n":
                b_end -= 1
        elif last == "END":
            b_end = body_hi
            # trim trailing whitespace
            while b_end > a and self.text[b_end - 1] in " \t\n":
                b_end -= 1
        else:
            b = self._find_line(last, self.text.rfind("\n", 0, a) + 1, body_hi, 0)
            b_end = self._stmt_end(b, body_hi)
        ls = self.text.rfind("\n", 0, a) + 1
        # the cut must be a sequence of whole statements: brackets balanced inside it
        depth = 0
        for ch in self.masked[ls:b_end]:
            if ch in "([{":
                depth += 1
            elif ch in ")]}":
                depth -= 1
                if depth < 0:
                    break
        if depth != 0:
            raise AnchorLost(f"{self.path}: anchors `{first}` .. `{until or last}` no longer delimit whole statements of `{name}`")
        return self.text[ls:b_end], (self.line_of(a), self.line_of(b_end - 1))

    def _find_line(self, lead, lo, hi, ordinal=0):
        pat = re.compile(r"(?m)^[ \t]*(" + re.escape(lead) + ")")
        hits = [m for m in pat.finditer(self.text, lo, hi) if self.masked[m.start(1)] == self.text[m.start(1)]]
        if len(hits) <= ordinal:
            raise AnchorLost(f"{self.path}: statement starting `{lead}` not found")
        return hits[ordinal].start(1)

    def nth_loop(self, name, ordinal, within=None, fn_ordinal=0, kinds=("for", "while", "loop")):
        """(start,end) offsets of the ordinal-th loop statement (pre-order) in fn."""
        _, o, c = self.find_fn(name, within, fn_ordinal)
        pat = re.compile(r"(?m)^[ \t]*(?:'\w+:\s*)?(" + "|".join(kinds) + r")\b")
        hits = [m for m in pat.finditer(self.masked, o, c)]
        if len(hits) <= ordinal:
            raise AnchorLost(f"{self.path}: loop #{ordinal} of `{name}` not found")
        a = hits[ordinal].start(1)
        # body brace
        k = a
        depth = 0
        while k < c:
            ch = self.masked[k]
            if ch in "([":
                depth += 1
            elif ch in ")]":
                depth -= 1
            elif ch == "{" and depth == 0:
                break
            k += 1
        e = self.match_close(k)
        return a, e + 1


def dedent(text):
    import textwrap
    return textwrap.dedent(text)
