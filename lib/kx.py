"""Lane KX: cut regions verbatim out of real functions into kani/gen/*.rs."""
import json, os, sys
sys.path.insert(0, os.path.dirname(__file__))
import rsx

VERIF = os.path.dirname(os.path.dirname(os.path.abspath(__file__)))
REPO = os.environ.get("VERIF_REPO", "/repo")
GEN = os.path.join(VERIF, "kani", "gen")


def generate_all():
    """Regenerate every region file. Returns {region: {ok, lines, error}}.
    A lost anchor yields a panicking body (so the crate still compiles for the
    other properties) and ok=False for the owning property."""
    os.makedirs(GEN, exist_ok=True)
    spec = json.load(open(os.path.join(VERIF, "units", "kx_regions.json")))
    out = {}
    cache = {}
    for name, r in spec.items():
        path = os.path.join(REPO, r["file"])
        info = {"property": r["property"], "file": r["file"], "fn": r.get("fn") or r.get("item"), "outside": r.get("outside", "")}
        try:
            src = cache.get(path) or rsx.Source(path)
            cache[path] = src
            if r.get("item"):
                # a local item (struct) declared inside the function, copied verbatim to module level
                if r.get("fn"):
                    s0, o0, c0 = src.find_fn(r["fn"], r.get("within"), r.get("fn_ordinal", 0))
                    a = src._find_line(r["item"], o0 + 1, c0, 0)
                else:
                    a = src._find_line(r["item"], 0, len(src.text), r.get("item_ordinal", 0))
                k = src.masked.index("{", a)
                e = src.match_close(k)
                text = src.text[a:e + 1]
                for pat in r.get("strip_lines", []):
                    text = "\n".join(l for l in text.split("\n") if not l.strip().startswith(pat))
                lines = (src.line_of(a), src.line_of(e))
                vis = "" if r.get("keep_vis") else "pub "
                code = (f"// GENERATED on every run by /verif/lib/kx.py — verbatim lines {lines[0]}-{lines[1]} of {r['file']} (item `{r['item']}`)\n"
                        f"{r.get('attr', '#[allow(dead_code)]')}\n{vis}{text}\n")
                info.update(ok=True, lines=list(lines), nlines=text.count("\n") + 1)
                pth = os.path.join(GEN, name + ".rs")
                old = open(pth).read() if os.path.exists(pth) else None
                if old != code:
                    open(pth, "w").write(code)
                out[name] = info
                continue
            if r.get("whole_fn"):
                s, o, c = src.find_fn(r["fn"], r.get("within"), r.get("fn_ordinal", 0))
                text = src.text[o + 1:c]
                lines = (src.line_of(o), src.line_of(c))
            elif r.get("loop_body") is not None:
                # the body of the n-th loop of the function (between its braces)
                la, le = src.nth_loop(r["fn"], r["loop_body"], r.get("within"), r.get("fn_ordinal", 0))
                k = src.masked.index("{", la)
                while src.match_close(k) != le - 1:
                    k = src.masked.index("{", k + 1)
                text = src.text[k + 1:le - 1].strip("\n")
                lines = (src.line_of(k), src.line_of(le - 1))
            else:
                text, lines = src.region(r["fn"], r.get("first"), r.get("last"), r.get("within"), r.get("fn_ordinal", 0), r.get("first_ordinal", 0), r.get("until"), r.get("after_loop"), r.get("after"))
            pre = r.get("prelude", "")
            post = r.get("postlude", "")
            if r.get("wrap_loop"):
                # region contains `continue`: run it as the single iteration of a loop
                body = f"    #[allow(clippy::never_loop)]\n    for _kx_once in 0..1 {{\n{text}\n    }}\n"
            else:
                body = text + "\n"
            code = (f"// GENERATED on every run by /verif/lib/kx.py — verbatim lines {lines[0]}-{lines[1]} of {r['file']} (fn {r['fn']})\n"
                    f"{r.get('attr', '#[allow(unused_variables, unused_mut, clippy::all)]')}\n{r['sig']} {{\n{pre}{body}{post}}}\n{r.get('suffix', '')}\n")
            info.update(ok=True, lines=list(lines), nlines=text.count("\n") + 1)
        except rsx.AnchorLost as e:
            code = (f"// ANCHOR LOST: {e}\n{r.get('attr', '#[allow(unused_variables)]')}\n{r['sig']} {{\n    panic!(\"VERIF_ANCHOR_LOST {name}\")\n}}\n{r.get('suffix', '')}\n")
            info.update(ok=False, error=str(e))
        p = os.path.join(GEN, name + ".rs")
        old = open(p).read() if os.path.exists(p) else None
        if old != code:
            open(p, "w").write(code)
        out[name] = info
    # playback slot files (tests injected by the replay step); keep if present
    return out


if __name__ == "__main__":
    print(json.dumps(generate_all(), indent=1))
