"""Replay of a Kani counterexample against the real code, natively.

`cargo kani -Z concrete-playback --concrete-playback=print` turns the CBMC trace
into a #[test] that feeds the same concrete bytes to the same harness. The test is
written into the harness module's playback slot (an `include!`d file under
kani/gen/, normally empty) and run with `cargo kani playback`, i.e. the real
function from /repo's working tree executes on the verifier's input; the observed
panic message is stored in the replay file.
"""
import json, os, re, subprocess, sys, glob, time

VERIF = os.path.dirname(os.path.dirname(os.path.abspath(__file__)))
REPO = os.environ.get("VERIF_REPO", "/repo")
TARGET = os.environ.get("VERIF_KANI_TARGET", os.path.join(VERIF, ".cache", "kani-target"))
PB_TARGET = os.path.join(VERIF, ".cache", "kani-playback-target")
GEN = os.path.join(VERIF, "kani", "gen")
FLAGS = ["-Z", "function-contracts", "-Z", "stubbing", "-Z", "unstable-options", "-Z", "concrete-playback"]


def ensure_slots():
    os.makedirs(GEN, exist_ok=True)
    for f in glob.glob(os.path.join(VERIF, "kani", "*.rs")):
        for m in re.finditer(r'include!\("(/verif/kani/gen/playback_[\w]+\.rs)"\)', open(f).read()):
            p = m.group(1).replace("/verif", VERIF, 1)
            if not os.path.exists(p):
                open(p, "w").write("")


def slot_for(harness):
    parts = harness.split("::")
    k = parts.index("verif_kani") if "verif_kani" in parts else len(parts) - 2
    mods, nested = parts[:k], parts[k + 1:-1]  # drop verif_kani and <fn>; nested harness modules have their own slot
    return os.path.join(GEN, "playback_" + "_".join(mods) + ("__" + "_".join(nested) if nested else "") + ".rs")


def concrete_playback(harness, replay_path, timeout=1500):
    out = {"harness": harness, "replayed": False}
    env = dict(os.environ, CARGO_NET_OFFLINE="true")
    cmd = ["cargo", "kani", "--target-dir", TARGET] + FLAGS + ["--concrete-playback=print", "--exact", "--harness", harness, "--harness-timeout", "15m"]
    try:
        p = subprocess.run(cmd, cwd=REPO, env=env, capture_output=True, text=True, timeout=timeout)
    except subprocess.TimeoutExpired:
        out["error"] = "counterexample generation timed out"
        return out
    m = re.search(r"```\s*\n(.*?)```", p.stdout, re.S)
    if not m:
        out["error"] = "kani printed no concrete playback test"
        out["log_tail"] = p.stdout[-1500:]
        return out
    test = m.group(1)
    out["test"] = test
    tn = re.search(r"fn (kani_concrete_playback_\w+)", test)
    if not tn:
        out["error"] = "no test name"
        return out
    test_name = tn.group(1)
    rs = os.path.splitext(replay_path)[0] + ".playback.rs"
    open(rs, "w").write(test)
    out["test_file"] = rs
    slot = slot_for(harness)
    if not os.path.exists(slot):
        out["error"] = f"no playback slot {slot}"
        return out
    open(slot, "w").write(test)
    try:
        cmd2 = ["cargo", "kani", "playback", "-Z", "concrete-playback", "-Z", "function-contracts", "-Z", "stubbing", "--lib", "--", test_name]
        out["playback_cmd"] = f"cd /repo && CARGO_TARGET_DIR={PB_TARGET} " + " ".join(cmd2)
        try:
            q = subprocess.run(cmd2, cwd=REPO, env=dict(env, CARGO_TARGET_DIR=PB_TARGET), capture_output=True, text=True, timeout=timeout)
            log = q.stdout + "\n" + q.stderr
            out["native_exit"] = q.returncode
            pm = re.search(r"panicked at[^\n]*\n[^\n]*", log)
            fm = re.search(r"test result: FAILED", log)
            if fm or (pm and q.returncode != 0):
                out["replayed"] = True
                out["observed"] = (pm.group(0) if pm else "test FAILED")[:600]
            elif re.search(r"test result: ok", log):
                out["observed"] = "the generated test passes natively: counterexample did not reproduce on the real code"
            else:
                out["error"] = "playback build/run failed"
                out["log_tail"] = log[-1500:]
        except subprocess.TimeoutExpired:
            out["error"] = "native playback timed out"
    finally:
        open(slot, "w").write("")
    return out


def replay_file(path):
    """./bin/check --replay <file>: re-run the stored playback test against the current tree."""
    rep = json.load(open(path))
    pb = rep.get("playback") or {}
    print(json.dumps({k: rep.get(k) for k in ("property", "obligation", "function", "contract", "reason")}, indent=1))
    if not pb.get("test"):
        print("no concrete input stored for this obligation (no-failing-input-found); verifier output:")
        print(json.dumps(rep.get("verifier_output"), indent=1)[:4000])
        return 0
    harness = pb["harness"]
    slot = slot_for(harness)
    ensure_slots()
    open(slot, "w").write(pb["test"])
    env = dict(os.environ, CARGO_NET_OFFLINE="true")
    tn = re.search(r"fn (kani_concrete_playback_\w+)", pb["test"]).group(1)
    try:
        q = subprocess.run(["cargo", "kani", "playback", "-Z", "concrete-playback", "-Z", "function-contracts", "-Z", "stubbing", "--lib", "--", tn], cwd=REPO, env=dict(env, CARGO_TARGET_DIR=PB_TARGET))
        return 1 if q.returncode != 0 else 0
    finally:
        open(slot, "w").write("")
