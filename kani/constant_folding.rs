// Contract harnesses for src/optimizer/rules/constant_folding.rs (property C02 / O4, O5).
// Spec: the folded literal must equal the SQL value of the literal expression, and folding
// must never panic. Integer semantics: exact arithmetic; an overflowing result is not folded.
#![allow(dead_code, unused_imports, unused_variables)]
use super::*;

fn any_binop() -> BinaryOp {
    let k: u8 = kani::any();
    kani::assume(k < 15);
    match k {
        0 => BinaryOp::Add,
        1 => BinaryOp::Subtract,
        2 => BinaryOp::Multiply,
        3 => BinaryOp::Divide,
        4 => BinaryOp::Modulo,
        5 => BinaryOp::Eq,
        6 => BinaryOp::NotEq,
        7 => BinaryOp::Lt,
        8 => BinaryOp::LtEq,
        9 => BinaryOp::Gt,
        10 => BinaryOp::GtEq,
        11 => BinaryOp::And,
        12 => BinaryOp::Or,
        13 => BinaryOp::Like,
        _ => BinaryOp::StringConcat,
    }
}

/// eval_int64 over all (i64, op, i64): never panics; a folded value is the exact result.
#[kani::proof]
fn c02_o4_eval_int64() {
    let (l, r): (i64, i64) = (kani::any(), kani::any());
    let op = any_binop();
    let out = ConstantFolding.eval_int64(l, op, r);
    let (li, ri) = (l as i128, r as i128);
    match (&out, op) {
        (Some(ScalarValue::Int64(v)), BinaryOp::Add) => assert!(*v as i128 == li + ri),
        (Some(ScalarValue::Int64(v)), BinaryOp::Subtract) => assert!(*v as i128 == li - ri),
        (Some(ScalarValue::Int64(v)), BinaryOp::Multiply) => assert!(*v as i128 == li * ri),
        (Some(ScalarValue::Int64(v)), BinaryOp::Divide) => assert!(r != 0 && *v as i128 == li / ri),
        (Some(ScalarValue::Int64(v)), BinaryOp::Modulo) => assert!(r != 0 && *v as i128 == li % ri),
        (Some(ScalarValue::Boolean(b)), BinaryOp::Eq) => assert!(*b == (l == r)),
        (Some(ScalarValue::Boolean(b)), BinaryOp::NotEq) => assert!(*b == (l != r)),
        (Some(ScalarValue::Boolean(b)), BinaryOp::Lt) => assert!(*b == (l < r)),
        (Some(ScalarValue::Boolean(b)), BinaryOp::LtEq) => assert!(*b == (l <= r)),
        (Some(ScalarValue::Boolean(b)), BinaryOp::Gt) => assert!(*b == (l > r)),
        (Some(ScalarValue::Boolean(b)), BinaryOp::GtEq) => assert!(*b == (l >= r)),
        (None, _) => {}
        _ => assert!(false), // wrong result type for the operator
    }
    kani::cover!(out.is_some());
    std::mem::forget(out);
}

/// eval_bool: two-valued AND / OR / = / <> on non-NULL boolean literals.
#[kani::proof]
fn c02_o4_eval_bool() {
    let (l, r): (bool, bool) = (kani::any(), kani::any());
    let op = any_binop();
    let out = ConstantFolding.eval_bool(l, op, r);
    match (&out, op) {
        (Some(ScalarValue::Boolean(b)), BinaryOp::And) => assert!(*b == (l && r)),
        (Some(ScalarValue::Boolean(b)), BinaryOp::Or) => assert!(*b == (l || r)),
        (Some(ScalarValue::Boolean(b)), BinaryOp::Eq) => assert!(*b == (l == r)),
        (Some(ScalarValue::Boolean(b)), BinaryOp::NotEq) => assert!(*b == (l != r)),
        (None, _) => {}
        _ => assert!(false),
    }
    std::mem::forget(out);
}

/// eval_float64 comparisons, outside the NaN / signed-zero class (where IEEE and the
/// interpreter's total order agree); arithmetic is the IEEE operation; x / 0.0 is not folded.
#[kani::proof]
fn c02_o4_eval_float64__excluding_known() {
    use arrow::array::ArrowNativeTypeOp;
    let (l, r): (f64, f64) = (kani::any(), kani::any());
    kani::assume(!(l.is_nan() || r.is_nan() || (l == 0.0 && r == 0.0)));
    let k: u8 = kani::any();
    kani::assume(k < 7);
    let op = match k {
        0 => BinaryOp::Eq,
        1 => BinaryOp::NotEq,
        2 => BinaryOp::Lt,
        3 => BinaryOp::LtEq,
        4 => BinaryOp::Gt,
        5 => BinaryOp::GtEq,
        _ => BinaryOp::Divide,
    };
    let out = ConstantFolding.eval_float64(l, op, r);
    match (&out, op) {
        (Some(ScalarValue::Boolean(b)), BinaryOp::Eq) => assert!(*b == l.is_eq(r)),
        (Some(ScalarValue::Boolean(b)), BinaryOp::NotEq) => assert!(*b == l.is_ne(r)),
        (Some(ScalarValue::Boolean(b)), BinaryOp::Lt) => assert!(*b == l.is_lt(r)),
        (Some(ScalarValue::Boolean(b)), BinaryOp::LtEq) => assert!(*b == l.is_le(r)),
        (Some(ScalarValue::Boolean(b)), BinaryOp::Gt) => assert!(*b == l.is_gt(r)),
        (Some(ScalarValue::Boolean(b)), BinaryOp::GtEq) => assert!(*b == l.is_ge(r)),
        (Some(ScalarValue::Float64(_)), BinaryOp::Divide) => assert!(r != 0.0),
        (None, BinaryOp::Divide) => assert!(r == 0.0),
        _ => assert!(false),
    }
    std::mem::forget(out);
}

include!("/verif/kani/gen/playback_optimizer_rules_constant_folding.rs");
