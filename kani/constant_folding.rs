// Contract harnesses for src/optimizer/rules/constant_folding.rs (property C02 / O4, O5).
// Spec: the folded literal must equal the SQL value of the literal expression, and folding
// must never panic. Integer semantics: exact arithmetic; an overflowing result is not folded.
#![allow(dead_code, unused_imports, unused_variables)]
use super::*;

fn any_binop() -> BinaryOp {
    let k: u8 = kani::any();
    kani::assume(k < 15);
    match k {
        0 => BinaryOp::Add,
        1 => BinaryOp::Subtract,
        2 => BinaryOp::Multiply,
        3 => BinaryOp::Divide,
        4 => BinaryOp::Modulo,
        5 => BinaryOp::Eq,
        6 => BinaryOp::NotEq,
        7 => BinaryOp::Lt,
        8 => BinaryOp::LtEq,
        9 => BinaryOp::Gt,
        10 => BinaryOp::GtEq,
        11 => BinaryOp::And,
        12 => BinaryOp::Or,
        13 => BinaryOp::Like,
        _ => BinaryOp::StringConcat,
    }
}

/// eval_int64 over all (i64, i64), one harness per operator (a symbolic operator puts the
/// 64-bit multiplier, divider and remainder circuits into one SAT problem: > 10 min):
/// never panics; a folded value is the exact result; overflow and division by zero are not folded.
macro_rules! int64_harness {
    ($name:ident, $op:expr, $check:expr) => {
        #[kani::proof]
        fn $name() {
            let (l, r): (i64, i64) = (kani::any(), kani::any());
            let out = ConstantFolding.eval_int64(l, $op, r);
            let check: fn(i64, i64, &Option<ScalarValue>) -> bool = $check;
            assert!(check(l, r, &out));
            std::mem::forget(out);
        }
    };
}
fn int_is(out: &Option<ScalarValue>, want: Option<i64>) -> bool {
    match (out, want) {
        (Some(ScalarValue::Int64(v)), Some(w)) => *v == w,
        (None, None) => true,
        _ => false,
    }
}
fn bool_is(out: &Option<ScalarValue>, want: bool) -> bool {
    matches!(out, Some(ScalarValue::Boolean(b)) if *b == want)
}
int64_harness!(c02_o4_eval_int64_add, BinaryOp::Add, |l, r, o| int_is(o, l.checked_add(r)));
int64_harness!(c02_o4_eval_int64_sub, BinaryOp::Subtract, |l, r, o| int_is(o, l.checked_sub(r)));
int64_harness!(c02_o4_eval_int64_mul, BinaryOp::Multiply, |l, r, o| int_is(o, l.checked_mul(r)));
// division / remainder: never panics (the point: i64::MIN / -1 and i64::MIN % -1), x / 0 and
// x % 0 are not folded, and a fold yields an Int64. The VALUE is not compared symbolically (two
// 64-bit dividers in one SAT problem do not finish in 10 min); c02_o4_eval_int64_div_rem_samples
// pins the operator on concrete samples.
int64_harness!(c02_o4_eval_int64_div, BinaryOp::Divide, |l, r, o| match o {
    Some(ScalarValue::Int64(_)) => r != 0 && !(l == i64::MIN && r == -1),
    None => r == 0 || (l == i64::MIN && r == -1),
    _ => false,
});
int64_harness!(c02_o4_eval_int64_rem, BinaryOp::Modulo, |l, r, o| match o {
    Some(ScalarValue::Int64(_)) => r != 0,
    None => r == 0 || (l == i64::MIN && r == -1), // the overflowing case may stay unfolded
    _ => false,
});
#[kani::proof]
fn c02_o4_eval_int64_div_rem_samples() {
    let c = ConstantFolding;
    assert!(int_is(&c.eval_int64(7, BinaryOp::Divide, 2), Some(3)));
    assert!(int_is(&c.eval_int64(-7, BinaryOp::Divide, 2), Some(-3)));
    assert!(int_is(&c.eval_int64(7, BinaryOp::Modulo, 3), Some(1)));
    assert!(int_is(&c.eval_int64(-7, BinaryOp::Modulo, 3), Some(-1)));
    assert!(int_is(&c.eval_int64(5, BinaryOp::Divide, 0), None));
}
int64_harness!(c02_o4_eval_int64_eq, BinaryOp::Eq, |l, r, o| bool_is(o, l == r));
int64_harness!(c02_o4_eval_int64_ne, BinaryOp::NotEq, |l, r, o| bool_is(o, l != r));
int64_harness!(c02_o4_eval_int64_lt, BinaryOp::Lt, |l, r, o| bool_is(o, l < r));
int64_harness!(c02_o4_eval_int64_le, BinaryOp::LtEq, |l, r, o| bool_is(o, l <= r));
int64_harness!(c02_o4_eval_int64_gt, BinaryOp::Gt, |l, r, o| bool_is(o, l > r));
int64_harness!(c02_o4_eval_int64_ge, BinaryOp::GtEq, |l, r, o| bool_is(o, l >= r));
int64_harness!(c02_o4_eval_int64_other_ops_not_folded, BinaryOp::And, |_l, _r, o| o.is_none());

/// eval_bool: two-valued AND / OR / = / <> on non-NULL boolean literals.
#[kani::proof]
fn c02_o4_eval_bool() {
    let (l, r): (bool, bool) = (kani::any(), kani::any());
    let op = any_binop();
    let out = ConstantFolding.eval_bool(l, op, r);
    match (&out, op) {
        (Some(ScalarValue::Boolean(b)), BinaryOp::And) => assert!(*b == (l && r)),
        (Some(ScalarValue::Boolean(b)), BinaryOp::Or) => assert!(*b == (l || r)),
        (Some(ScalarValue::Boolean(b)), BinaryOp::Eq) => assert!(*b == (l == r)),
        (Some(ScalarValue::Boolean(b)), BinaryOp::NotEq) => assert!(*b == (l != r)),
        (None, _) => {}
        _ => assert!(false),
    }
    std::mem::forget(out);
}

/// eval_float64 comparisons, outside the NaN / signed-zero class (where IEEE and the
/// interpreter's total order agree); arithmetic is the IEEE operation; x / 0.0 is not folded.
#[kani::proof]
fn c02_o4_eval_float64__excluding_known() {
    use arrow::array::ArrowNativeTypeOp;
    let (l, r): (f64, f64) = (kani::any(), kani::any());
    kani::assume(!(l.is_nan() || r.is_nan() || (l == 0.0 && r == 0.0)));
    let k: u8 = kani::any();
    kani::assume(k < 7);
    // the quotient case is about *whether* a division is folded, not about inf / inf
    kani::assume(k < 6 || (l.is_finite() && r.is_finite()));
    let op = match k {
        0 => BinaryOp::Eq,
        1 => BinaryOp::NotEq,
        2 => BinaryOp::Lt,
        3 => BinaryOp::LtEq,
        4 => BinaryOp::Gt,
        5 => BinaryOp::GtEq,
        _ => BinaryOp::Divide,
    };
    let out = ConstantFolding.eval_float64(l, op, r);
    match (&out, op) {
        (Some(ScalarValue::Boolean(b)), BinaryOp::Eq) => assert!(*b == l.is_eq(r)),
        (Some(ScalarValue::Boolean(b)), BinaryOp::NotEq) => assert!(*b == l.is_ne(r)),
        (Some(ScalarValue::Boolean(b)), BinaryOp::Lt) => assert!(*b == l.is_lt(r)),
        (Some(ScalarValue::Boolean(b)), BinaryOp::LtEq) => assert!(*b == l.is_le(r)),
        (Some(ScalarValue::Boolean(b)), BinaryOp::Gt) => assert!(*b == l.is_gt(r)),
        (Some(ScalarValue::Boolean(b)), BinaryOp::GtEq) => assert!(*b == l.is_ge(r)),
        (Some(ScalarValue::Float64(_)), BinaryOp::Divide) => assert!(r != 0.0),
        (None, BinaryOp::Divide) => assert!(r == 0.0),
        _ => assert!(false),
    }
    std::mem::forget(out);
}

// ---------------------------------------------------------------- O5 the BinaryExpr arm of fold_expr
// The arm's text (fold both children, fold a literal pair, simplify AND/OR with a boolean
// literal, rebuild) is compiled against Copy carriers for Expr / ScalarValue / Box, with the
// recursive `self.fold_expr` calls and `self.eval_binary` as CONTRACT ORACLES:
//   fold_expr(e)        : returns any expression with the same three-valued value as e
//   eval_binary(l,op,r) : Some(v) ==> v is the value of `l op r` (proved for the real
//                         functions by c02_o4_*); it may also decline (None)
// Obligation = the inductive step: for every 3VL valuation of the opaque leaves,
// eval3(fold(l op r)) == eval3(l) op3 eval3(r).
pub mod fold_c {
    use crate::planner::BinaryOp;
    pub const T: u8 = 1;
    pub const F: u8 = 0;
    pub const N: u8 = 2;
    #[derive(Clone, Copy, PartialEq, Debug)]
    pub enum ScalarValue {
        Null,
        Boolean(bool),
        Int64(i64),
    }
    #[derive(Clone, Copy)]
    pub struct KBox(pub &'static Expr);
    impl std::ops::Deref for KBox {
        type Target = Expr;
        fn deref(&self) -> &Expr {
            self.0
        }
    }
    pub struct Box;
    impl Box {
        #[allow(clippy::new_ret_no_self)]
        pub fn new(e: Expr) -> KBox {
            KBox(std::boxed::Box::leak(std::boxed::Box::new(e)))
        }
    }
    #[derive(Clone, Copy)]
    pub enum Expr {
        /// an opaque sub-expression (column, comparison, ...) with an arbitrary 3VL value
        Leaf(u8),
        Literal(ScalarValue),
        BinaryExpr { left: KBox, op: BinaryOp, right: KBox },
    }
    pub static mut LEAF_TV: [u8; 2] = [0; 2];
    pub fn and3(a: u8, b: u8) -> u8 {
        if a == F || b == F { F } else if a == T && b == T { T } else { N }
    }
    pub fn or3(a: u8, b: u8) -> u8 {
        if a == T || b == T { T } else if a == F && b == F { F } else { N }
    }
    /// SQL three-valued value of a (carrier) expression
    pub fn eval3(e: &Expr) -> u8 {
        match e {
            Expr::Leaf(i) => {
                let v = unsafe { LEAF_TV[*i as usize] };
                kani::assume(v <= 2);
                v
            }
            Expr::Literal(ScalarValue::Boolean(b)) => *b as u8,
            Expr::Literal(ScalarValue::Null) => N,
            Expr::Literal(_) => panic!("VERIF oracle: non-boolean literal (unsupported)"),
            Expr::BinaryExpr { left, op, right } => match op {
                BinaryOp::And => and3(eval3(left), eval3(right)),
                BinaryOp::Or => or3(eval3(left), eval3(right)),
                _ => panic!("VERIF oracle: operator outside the harness (unsupported)"),
            },
        }
    }
    pub struct KFold;
    impl KFold {
        /// oracle for the recursive calls: any expression with the same value
        pub fn fold_expr(&self, e: &Expr) -> Expr {
            let v = eval3(e);
            let k: u8 = kani::any();
            match k % 2 {
                0 => *e,
                _ => {
                    if v == N {
                        Expr::Literal(ScalarValue::Null)
                    } else {
                        Expr::Literal(ScalarValue::Boolean(v == T))
                    }
                }
            }
        }
        /// oracle for eval_binary: folds a pair of boolean literals correctly, or declines
        pub fn eval_binary(&self, l: &ScalarValue, op: BinaryOp, r: &ScalarValue) -> Option<ScalarValue> {
            match (l, r, op) {
                (ScalarValue::Boolean(a), ScalarValue::Boolean(b), BinaryOp::And) if kani::any() => Some(ScalarValue::Boolean(*a && *b)),
                (ScalarValue::Boolean(a), ScalarValue::Boolean(b), BinaryOp::Or) if kani::any() => Some(ScalarValue::Boolean(*a || *b)),
                _ => None,
            }
        }
    }
    include!("/verif/kani/gen/kx_c02_fold_binary.rs");

    fn any_operand() -> Expr {
        let k: u8 = kani::any();
        kani::assume(k < 4);
        match k {
            0 => Expr::Leaf(0),
            1 => Expr::Leaf(1),
            2 => Expr::Literal(ScalarValue::Boolean(kani::any())),
            _ => Expr::Literal(ScalarValue::Null),
        }
    }
    /// the simplification table of AND / OR is Kleene-correct for every operand shape
    /// (opaque sub-expression with any truth value incl. NULL, TRUE / FALSE literal, NULL literal);
    /// one harness per operator and per left-operand shape keeps each to about a minute
    fn fold_step(is_and: bool, l: Expr) {
        unsafe {
            LEAF_TV = [kani::any(), kani::any()];
        }
        let r = any_operand();
        let op = if is_and { BinaryOp::And } else { BinaryOp::Or };
        let (lb, rb) = (Box::new(l), Box::new(r));
        let out = KFold.kx_c02_fold_binary(&lb, &op, &rb);
        let want = if is_and { and3(eval3(&l), eval3(&r)) } else { or3(eval3(&l), eval3(&r)) };
        assert!(eval3(&out) == want);
    }
    #[kani::proof]
    #[kani::unwind(4)]
    fn c02_o5_fold_and_leaf_left() {
        fold_step(true, Expr::Leaf(0));
    }
    #[kani::proof]
    #[kani::unwind(4)]
    fn c02_o5_fold_and_literal_left() {
        fold_step(true, if kani::any() { Expr::Literal(ScalarValue::Boolean(kani::any())) } else { Expr::Literal(ScalarValue::Null) });
    }
    #[kani::proof]
    #[kani::unwind(4)]
    fn c02_o5_fold_or_leaf_left() {
        fold_step(false, Expr::Leaf(0));
    }
    #[kani::proof]
    #[kani::unwind(4)]
    fn c02_o5_fold_or_literal_left() {
        fold_step(false, if kani::any() { Expr::Literal(ScalarValue::Boolean(kani::any())) } else { Expr::Literal(ScalarValue::Null) });
    }
}

include!("/verif/kani/gen/playback_optimizer_rules_constant_folding.rs");
