// Contract harnesses for src/optimizer/rules/constant_folding.rs (property C02 / O4, O5).
// Spec: the folded literal must equal the SQL value of the literal expression, and folding
// must never panic. Integer semantics: exact arithmetic; an overflowing result is not folded.
#![allow(dead_code, unused_imports, unused_variables)]
use super::*;

fn any_binop() -> BinaryOp {
    let k: u8 = kani::any();
    kani::assume(k < 15);
    match k {
        0 => BinaryOp::Add,
        1 => BinaryOp::Subtract,
        2 => BinaryOp::Multiply,
        3 => BinaryOp::Divide,
        4 => BinaryOp::Modulo,
        5 => BinaryOp::Eq,
        6 => BinaryOp::NotEq,
        7 => BinaryOp::Lt,
        8 => BinaryOp::LtEq,
        9 => BinaryOp::Gt,
        10 => BinaryOp::GtEq,
        11 => BinaryOp::And,
        12 => BinaryOp::Or,
        13 => BinaryOp::Like,
        _ => BinaryOp::StringConcat,
    }
}

/// eval_int64 over all (i64, i64), one harness per operator (a symbolic operator puts the
/// 64-bit multiplier, divider and remainder circuits into one SAT problem: > 10 min):
/// never panics; a folded value is the exact result; overflow and division by zero are not folded.
macro_rules! int64_harness {
    ($name:ident, $op:expr, $check:expr) => {
        #[kani::proof]
        fn $name() {
            let (l, r): (i64, i64) = (kani::any(), kani::any());
            let out = ConstantFolding.eval_int64(l, $op, r);
            let check: fn(i64, i64, &Option<ScalarValue>) -> bool = $check;
            assert!(check(l, r, &out));
            std::mem::forget(out);
        }
    };
}
fn int_is(out: &Option<ScalarValue>, want: Option<i64>) -> bool {
    match (out, want) {
        (Some(ScalarValue::Int64(v)), Some(w)) => *v == w,
        (None, None) => true,
        _ => false,
    }
}
fn bool_is(out: &Option<ScalarValue>, want: bool) -> bool {
    matches!(out, Some(ScalarValue::Boolean(b)) if *b == want)
}
int64_harness!(c02_o4_eval_int64_add, BinaryOp::Add, |l, r, o| int_is(o, l.checked_add(r)));
int64_harness!(c02_o4_eval_int64_sub, BinaryOp::Subtract, |l, r, o| int_is(o, l.checked_sub(r)));
int64_harness!(c02_o4_eval_int64_mul, BinaryOp::Multiply, |l, r, o| int_is(o, l.checked_mul(r)));
// division / remainder: never panics (the point: i64::MIN / -1 and i64::MIN % -1), x / 0 and
// x % 0 are not folded, and a fold yields an Int64. The VALUE is not compared symbolically (two
// 64-bit dividers in one SAT problem do not finish in 10 min); c02_o4_eval_int64_div_rem_samples
// pins the operator on concrete samples.
int64_harness!(c02_o4_eval_int64_div, BinaryOp::Divide, |l, r, o| match o {
    Some(ScalarValue::Int64(_)) => r != 0 && !(l == i64::MIN && r == -1),
    None => r == 0 || (l == i64::MIN && r == -1),
    _ => false,
});
int64_harness!(c02_o4_eval_int64_rem, BinaryOp::Modulo, |l, r, o| match o {
    Some(ScalarValue::Int64(_)) => r != 0,
    None => r == 0 || (l == i64::MIN && r == -1), // the overflowing case may stay unfolded
    _ => false,
});
#[kani::proof]
fn c02_o4_eval_int64_div_rem_samples() {
    let c = ConstantFolding;
    assert!(int_is(&c.eval_int64(7, BinaryOp::Divide, 2), Some(3)));
    assert!(int_is(&c.eval_int64(-7, BinaryOp::Divide, 2), Some(-3)));
    assert!(int_is(&c.eval_int64(7, BinaryOp::Modulo, 3), Some(1)));
    assert!(int_is(&c.eval_int64(-7, BinaryOp::Modulo, 3), Some(-1)));
    assert!(int_is(&c.eval_int64(5, BinaryOp::Divide, 0), None));
}
int64_harness!(c02_o4_eval_int64_eq, BinaryOp::Eq, |l, r, o| bool_is(o, l == r));
int64_harness!(c02_o4_eval_int64_ne, BinaryOp::NotEq, |l, r, o| bool_is(o, l != r));
int64_harness!(c02_o4_eval_int64_lt, BinaryOp::Lt, |l, r, o| bool_is(o, l < r));
int64_harness!(c02_o4_eval_int64_le, BinaryOp::LtEq, |l, r, o| bool_is(o, l <= r));
int64_harness!(c02_o4_eval_int64_gt, BinaryOp::Gt, |l, r, o| bool_is(o, l > r));
int64_harness!(c02_o4_eval_int64_ge, BinaryOp::GtEq, |l, r, o| bool_is(o, l >= r));
int64_harness!(c02_o4_eval_int64_other_ops_not_folded, BinaryOp::And, |_l, _r, o| o.is_none());

/// eval_bool: two-valued AND / OR / = / <> on non-NULL boolean literals.
#[kani::proof]
fn c02_o4_eval_bool() {
    let (l, r): (bool, bool) = (kani::any(), kani::any());
    let op = any_binop();
    let out = ConstantFolding.eval_bool(l, op, r);
    match (&out, op) {
        (Some(ScalarValue::Boolean(b)), BinaryOp::And) => assert!(*b == (l && r)),
        (Some(ScalarValue::Boolean(b)), BinaryOp::Or) => assert!(*b == (l || r)),
        (Some(ScalarValue::Boolean(b)), BinaryOp::Eq) => assert!(*b == (l == r)),
        (Some(ScalarValue::Boolean(b)), BinaryOp::NotEq) => assert!(*b == (l != r)),
        (None, _) => {}
        _ => assert!(false),
    }
    std::mem::forget(out);
}

/// eval_float64 comparisons, outside the NaN / signed-zero class (where IEEE and the
/// interpreter's total order agree); arithmetic is the IEEE operation; x / 0.0 is not folded.
#[kani::proof]
fn c02_o4_eval_float64__excluding_known() {
    use arrow::array::ArrowNativeTypeOp;
    let (l, r): (f64, f64) = (kani::any(), kani::any());
    kani::assume(!(l.is_nan() || r.is_nan() || (l == 0.0 && r == 0.0)));
    let k: u8 = kani::any();
    kani::assume(k < 7);
    // the quotient case is about *whether* a division is folded, not about inf / inf
    kani::assume(k < 6 || (l.is_finite() && r.is_finite()));
    let op = match k {
        0 => BinaryOp::Eq,
        1 => BinaryOp::NotEq,
        2 => BinaryOp::Lt,
        3 => BinaryOp::LtEq,
        4 => BinaryOp::Gt,
        5 => BinaryOp::GtEq,
        _ => BinaryOp::Divide,
    };
    let out = ConstantFolding.eval_float64(l, op, r);
    match (&out, op) {
        (Some(ScalarValue::Boolean(b)), BinaryOp::Eq) => assert!(*b == l.is_eq(r)),
        (Some(ScalarValue::Boolean(b)), BinaryOp::NotEq) => assert!(*b == l.is_ne(r)),
        (Some(ScalarValue::Boolean(b)), BinaryOp::Lt) => assert!(*b == l.is_lt(r)),
        (Some(ScalarValue::Boolean(b)), BinaryOp::LtEq) => assert!(*b == l.is_le(r)),
        (Some(ScalarValue::Boolean(b)), BinaryOp::Gt) => assert!(*b == l.is_gt(r)),
        (Some(ScalarValue::Boolean(b)), BinaryOp::GtEq) => assert!(*b == l.is_ge(r)),
        (Some(ScalarValue::Float64(_)), BinaryOp::Divide) => assert!(r != 0.0),
        (None, BinaryOp::Divide) => assert!(r == 0.0),
        _ => assert!(false),
    }
    std::mem::forget(out);
}

include!("/verif/kani/gen/playback_optimizer_rules_constant_folding.rs");
