// Contract harnesses for src/execution/topology.rs (property C42).
#![allow(dead_code, unused_imports)]
use super::*;

/// workers_for: complete, all (usize, usize).
#[kani::proof]
fn c42_workers_for_contract() {
    let (work, max): (usize, usize) = (kani::any(), kani::any());
    let r = workers_for(work, max);
    assert!(r >= 1);
    assert!(r <= max.max(1)); // never exceeds the pool size
    assert!(r <= work.max(1)); // never exceeds the available work
    if work >= 1 && work <= max {
        assert!(r == work);
    }
    if work > max.max(1) {
        assert!(r == max.max(1));
    }
    kani::cover!(r == work && work > 1);
    kani::cover!(r < work);
}

// ---------------------------------------------------------------- parse_cpulist
// Lane KX, whole function body verbatim. CBMC cannot afford std's str machinery
// (measured: > 8 min for a 3-byte list), so the string API is a CARRIER: `KSrc` is a
// cpulist seen as its comma-separated parts, `KStr` one part seen as what the std
// functions make of it. The carrier methods are the assumed contracts on std:
//   trim()            : removes the whitespace around a text (and nothing else)
//   split(',')        : yields the parts in order
//   is_empty()        : true exactly for the text of length 0 (not for whitespace)
//   split_once('-')   : Some((left, right)) iff the part contains a '-'
//   parse::<usize>()  : Ok(n) iff the text is a decimal usize, else Err (whitespace makes it Err)
// A part carries flags for whitespace around it and around the sides of its '-', so a rendering
// with arbitrary whitespace is in the domain and the places where the code must trim are checked.
// What is verified is everything parse_cpulist itself decides: which parts are
// skipped, inclusive ranges, junk ignored, sort + dedup.
#[derive(Clone, Copy)]
pub struct KStr {
    /// 0 = empty or only whitespace, 1 = no '-' in the part, 2 = contains '-'
    kind: u8,
    a: usize,
    a_ok: bool,
    b: usize,
    b_ok: bool,
    /// for an atom produced by split_once
    atom: bool,
    /// whitespace around the text (outer), and around the two sides of the '-'
    pad: bool,
    a_pad: bool,
    b_pad: bool,
}
pub trait KFromUsize: Sized {
    fn from_usize(n: usize) -> Self;
}
impl KFromUsize for usize {
    fn from_usize(n: usize) -> usize {
        n
    }
}
impl KStr {
    /// std: removes leading and trailing whitespace, nothing else
    pub fn trim(&self) -> KStr {
        KStr { pad: false, ..*self }
    }
    /// std: true exactly for the text of length 0 (a whitespace-only text is not empty)
    pub fn is_empty(&self) -> bool {
        self.kind == 0 && !self.pad
    }
    pub fn split_once(&self, c: char) -> Option<(KStr, KStr)> {
        assert!(c == '-');
        if self.kind == 2 {
            // the outer padding stays on the outer ends of the two halves
            let l = KStr { kind: 1, a: self.a, a_ok: self.a_ok, b: 0, b_ok: false, atom: true, pad: self.pad || self.a_pad, a_pad: false, b_pad: false };
            let r = KStr { kind: 1, a: self.b, a_ok: self.b_ok, b: 0, b_ok: false, atom: true, pad: self.pad || self.b_pad, a_pad: false, b_pad: false };
            Some((l, r))
        } else {
            None
        }
    }
    /// std: Ok(n) iff the text is a decimal usize - a text with whitespace, a '-' or no digits is not
    pub fn parse<T: KFromUsize>(&self) -> Result<T, ()> {
        if self.kind == 1 && self.a_ok && !self.pad {
            Ok(T::from_usize(self.a))
        } else {
            Err(())
        }
    }
}
pub fn mk_part(kind: u8, a: usize, a_ok: bool, b: usize, b_ok: bool) -> KStr {
    // whitespace anywhere a rendering may put it
    KStr { kind, a, a_ok, b, b_ok, atom: false, pad: kani::any(), a_pad: kani::any(), b_pad: kani::any() }
}
/// carrier for the `Vec<usize>` the loop body pushes into (fixed capacity; overflow fails the harness)
pub struct KVec {
    buf: [usize; 8],
    len: usize,
}
impl KVec {
    pub fn push(&mut self, v: usize) {
        assert!(self.len < 8, "VERIF carrier capacity (unsupported)");
        self.buf[self.len] = v;
        self.len += 1;
    }
    pub fn extend<I: IntoIterator<Item = usize>>(&mut self, it: I) {
        for v in it {
            self.push(v);
        }
    }
}

impl KVec {
    /// model of std sort_unstable: ascending
    pub fn sort_unstable(&mut self) {
        let mut i = 1;
        while i < self.len {
            let mut j = i;
            while j > 0 && self.buf[j - 1] > self.buf[j] {
                self.buf.swap(j - 1, j);
                j -= 1;
            }
            i += 1;
        }
    }
    /// model of std dedup: removes consecutive repeated elements
    pub fn dedup(&mut self) {
        if self.len == 0 {
            return;
        }
        let mut w = 1;
        let mut r = 1;
        while r < self.len {
            if self.buf[r] != self.buf[w - 1] {
                self.buf[w] = self.buf[r];
                w += 1;
            }
            r += 1;
        }
        self.len = w;
    }
}

include!("/verif/kani/gen/kx_cpulist_part.rs");

const W: usize = 4; // widest range explored (loop bound); ids themselves are unbounded

/// the set a part denotes: junk and malformed ranges denote nothing
pub fn denotes(p: &KStr, id: usize) -> bool {
    match p.kind {
        1 => p.a_ok && id == p.a,
        2 => p.a_ok && p.b_ok && p.a <= id && id <= p.b,
        _ => false,
    }
}

/// One part of the list, any ids in usize: the loop body appends EXACTLY the ids the part
/// denotes, ascending, nothing for junk / empty / malformed ranges, and never panics.
/// B(range width <= 4) — the only loop is `for c in a..=b`.
#[kani::proof]
#[kani::unwind(6)]
fn c42_kx_cpulist_part_denotation() {
    let kind: u8 = kani::any();
    kani::assume(kind <= 2);
    let (a, b): (usize, usize) = (kani::any(), kani::any());
    kani::assume(b < a || b - a < W);
    let part = KStr { kind, a, a_ok: kani::any(), b, b_ok: kani::any(), atom: false, pad: kani::any(), a_pad: kani::any(), b_pad: kani::any() };
    let pre: usize = kani::any();
    kani::assume(pre <= 2);
    let mut out = KVec { buf: [kani::any(); 8], len: pre };
    let before = out.buf;
    kx_cpulist_part(part, &mut out);
    // frame: what was already collected is untouched
    let mut i = 0;
    while i < pre {
        assert!(out.buf[i] == before[i]);
        i += 1;
    }
    // appended ids are exactly the denoted set, ascending
    let added = out.len - pre;
    let mut k = 0;
    while k < added {
        let id = out.buf[pre + k];
        assert!(denotes(&part, id));
        if k > 0 {
            assert!(out.buf[pre + k - 1] < id);
        }
        k += 1;
    }
    let want = match part.kind {
        1 if part.a_ok => 1,
        2 if part.a_ok && part.b_ok && part.a <= part.b => part.b - part.a + 1,
        _ => 0,
    };
    assert!(added == want);
    kani::cover!(added == W);
    kani::cover!(kind == 2 && added == 0 && part.a_ok && part.b_ok);
    kani::cover!(kind == 1 && added == 1);
}

// ---------------------------------------------------------------- whole function on carriers
pub mod whole {
    use super::{KFromUsize, KStr};
    pub const CAP: usize = 8;
    /// carrier for `Vec<usize>`: fixed capacity, std's sort_unstable / dedup modelled
    pub struct Vec<T> {
        pub buf: [T; CAP],
        pub len: usize,
    }
    impl<T: Copy + Default + Ord> Vec<T> {
        pub fn new() -> Self {
            Vec { buf: [T::default(); CAP], len: 0 }
        }
        pub fn push(&mut self, v: T) {
            assert!(self.len < CAP, "VERIF carrier capacity (unsupported)");
            self.buf[self.len] = v;
            self.len += 1;
        }
        pub fn extend<I: IntoIterator<Item = T>>(&mut self, it: I) {
            for v in it {
                self.push(v);
            }
        }
        pub fn sort_unstable(&mut self) {
            let mut i = 1;
            while i < self.len {
                let mut j = i;
                while j > 0 && self.buf[j - 1] > self.buf[j] {
                    self.buf.swap(j - 1, j);
                    j -= 1;
                }
                i += 1;
            }
        }
        pub fn dedup(&mut self) {
            if self.len == 0 {
                return;
            }
            let mut w = 1;
            let mut r = 1;
            while r < self.len {
                if self.buf[r] != self.buf[w - 1] {
                    self.buf[w] = self.buf[r];
                    w += 1;
                }
                r += 1;
            }
            self.len = w;
        }
    }
    /// a cpulist seen as its comma-separated parts
    pub struct KSrc {
        pub parts: [KStr; 2],
        pub n: usize,
    }
    impl KSrc {
        pub fn trim(&self) -> &KSrc {
            self
        }
        pub fn split(&self, c: char) -> impl Iterator<Item = KStr> + '_ {
            assert!(c == ',');
            self.parts[..self.n].iter().copied()
        }
    }
    include!("/verif/kani/gen/kx_parse_cpulist_whole.rs");

    const U: usize = 6;
    fn any_part() -> KStr {
        let kind: u8 = kani::any();
        kani::assume(kind <= 2);
        let (a, b): (usize, usize) = (kani::any(), kani::any());
        kani::assume(a < U && b < U && (b < a || b - a < 3));
        super::mk_part(kind, a, kani::any(), b, kani::any())
    }
    /// the whole function: for every list of <= 2 parts the result is strictly increasing and
    /// holds exactly the ids some part denotes. B(<= 2 parts, ranges <= 3 wide, ids < 6).
    #[kani::proof]
    #[kani::unwind(9)]
    fn c42_kx_parse_cpulist_whole() {
        let n: usize = kani::any();
        kani::assume(n <= 2);
        let src = KSrc { parts: [any_part(), any_part()], n };
        let out = kx_parse_cpulist_whole(&src);
        let mut k = 1;
        while k < out.len {
            assert!(out.buf[k - 1] < out.buf[k]);
            k += 1;
        }
        let mut id = 0;
        while id < U {
            let want = (n >= 1 && super::denotes(&src.parts[0], id)) || (n >= 2 && super::denotes(&src.parts[1], id));
            let mut got = false;
            let mut r = 0;
            while r < out.len {
                got = got || out.buf[r] == id;
                r += 1;
            }
            assert!(got == want);
            id += 1;
        }
        kani::cover!(out.len >= 4);
        kani::cover!(n == 2 && out.len == 0);
    }
}

include!("/verif/kani/gen/playback_execution_topology.rs");
