// Contract harness for src/physical/operators/sort.rs (property C25, full sort and fused top-k).
// SortExec concatenates its input and calls sort_batch(batch, order_by, fetch); sorting itself is
// Arrow's lexsort_to_indices (assumed contract: stable lexicographic order under each column's
// SortOptions, truncated to `limit`). What the engine decides - and what is verified here on the
// whole verbatim body of sort_batch - is WHAT it asks Arrow for: one sort column per ORDER BY key,
// in key order, evaluated from that key's expression, `descending` exactly for DESC keys,
// `nulls_first` exactly for NULLS FIRST keys, the fetch passed as the limit, and every output
// column taken with the returned indices, in column order.
#![allow(dead_code, unused_imports, unused_variables)]

pub mod sort_c {
    use crate::planner::{NullOrdering, SortDirection};

    include!("/verif/kani/inc/sort_carriers.rs");
    include!("/verif/kani/gen/kx_c25_sort_batch.rs");

    fn any_dir() -> SortDirection {
        if kani::any() { SortDirection::Asc } else { SortDirection::Desc }
    }
    fn any_nulls() -> NullOrdering {
        if kani::any() { NullOrdering::NullsFirst } else { NullOrdering::NullsLast }
    }
    /// 1..=3 ORDER BY keys with every direction x NULL placement, fetch None / Some(any), 1..=3 columns,
    /// any row count (0 included: the batch is returned as it is)
    #[kani::proof]
    #[kani::unwind(5)]
    fn c25_kx_sort_batch_asks_arrow_for_the_stated_order() {
        let nk: usize = kani::any();
        kani::assume(nk >= 1 && nk <= CAP);
        let keys = [
            SortExpr { expr: KExpr { col: kani::any() }, direction: any_dir(), nulls: any_nulls() },
            SortExpr { expr: KExpr { col: kani::any() }, direction: any_dir(), nulls: any_nulls() },
            SortExpr { expr: KExpr { col: kani::any() }, direction: any_dir(), nulls: any_nulls() },
        ];
        kani::assume(keys[0].expr.col < 50 && keys[1].expr.col < 50 && keys[2].expr.col < 50);
        let nc: usize = kani::any();
        kani::assume(nc >= 1 && nc <= CAP);
        let mut cols = Vec::new();
        let mut c = 0;
        while c < nc {
            cols.push(ArrayRef { id: c as u8, taken_with: None });
            c += 1;
        }
        let rows: usize = kani::any();
        let batch = RecordBatch { schema: KSchema { id: 9 }, cols, rows };
        let fetch: Option<usize> = if kani::any() { Some(kani::any()) } else { None };
        let out = kx_c25_sort_batch(&batch, &keys[..nk], fetch).expect("no oracle fails");
        assert!(out.schema == batch.schema && out.cols.len() == nc);
        if rows == 0 {
            let mut c = 0;
            while c < nc {
                assert!(out.cols[c] == batch.cols[c]);
                c += 1;
            }
        } else {
            let mut c = 0;
            while c < nc {
                assert!(out.cols[c].id == c as u8); // columns keep their order
                let idx = out.cols[c].taken_with.expect("every column is reordered");
                assert!(idx.n == nk && idx.limit == fetch);
                let mut k = 0;
                while k < nk {
                    let (id, desc, nf) = idx.keys[k];
                    assert!(id == 100 + keys[k].expr.col); // k-th sort column = k-th ORDER BY key
                    assert!(desc == (keys[k].direction == SortDirection::Desc));
                    assert!(nf == matches!(keys[k].nulls, NullOrdering::NullsFirst));
                    k += 1;
                }
                c += 1;
            }
        }
    }
    include!("/verif/kani/gen/playback_physical_operators_sort__sort_c.rs");
}

/// C25: the `LogicalPlan::Limit` arm of PhysicalPlanner::create_physical_plan_inner (src/physical/planner.rs,
/// cut from there by kx; this module only hosts the harness). LIMIT n OFFSET m over a plan must become an
/// operator tree that returns rows m+1..m+n of the child's order: either a LimitExec(skip, fetch) over the
/// child's plan, or - the Sort+Limit fusion - a sort WITH FETCH over the sort's child, which is only the same
/// thing when there is no OFFSET, the fetch is the LIMIT, and the sort keys are the Sort node's.
pub mod fuse_c {
    pub type Result<T> = std::result::Result<T, ()>;
    #[derive(Clone, Copy, PartialEq)]
    pub struct KOrder(pub u8);
    impl KOrder {
        pub fn clone(&self) -> KOrder {
            *self
        }
    }
    /// `Arc<LogicalPlan>` of the real nodes: a shared reference here (no drop glue, no recursion for CBMC)
    #[derive(Clone, Copy)]
    pub struct KRef<'a>(pub &'a LogicalPlan<'a>);
    impl<'a> KRef<'a> {
        pub fn as_ref(&self) -> &LogicalPlan<'a> {
            self.0
        }
    }
    impl<'a> std::ops::Deref for KRef<'a> {
        type Target = LogicalPlan<'a>;
        fn deref(&self) -> &LogicalPlan<'a> {
            self.0
        }
    }
    pub struct KSortNode<'a> {
        pub input: KRef<'a>,
        pub order_by: KOrder,
    }
    /// a logical plan: a Sort node, or any other node (identified by a number)
    pub enum LogicalPlan<'a> {
        Sort(KSortNode<'a>),
        Other(u8),
    }
    pub struct KLimitNode<'a> {
        pub input: KRef<'a>,
        pub skip: usize,
        pub fetch: Option<usize>,
    }
    /// identity of a logical subtree: (is it a Sort node, its number / its order_by, the number of the Sort's child)
    fn ident(p: &LogicalPlan) -> (bool, u8, u8) {
        match p {
            LogicalPlan::Sort(s) => (true, s.order_by.0, match s.input.as_ref() {
                LogicalPlan::Other(i) => *i,
                LogicalPlan::Sort(_) => 255,
            }),
            LogicalPlan::Other(i) => (false, *i, 0),
        }
    }
    /// a physical operator: what it is and what it was built from
    #[derive(Clone, Copy, PartialEq)]
    pub struct KOp {
        pub kind: u8, // 0 = the plan OF a logical subtree, 1 = SortExec with fetch, 2 = ExternalSortExec with fetch, 3 = LimitExec
        pub of: (bool, u8, u8),
        pub order: KOrder,
        pub skip: usize,
        pub fetch: Option<usize>,
    }
    pub struct Arc;
    impl Arc {
        pub fn new(op: KOp) -> KOp {
            op
        }
    }
    #[derive(Clone, Copy)]
    pub struct KPool;
    #[derive(Clone, Copy)]
    pub struct KCfg;
    pub struct ExternalSortExec;
    impl ExternalSortExec {
        pub fn with_fetch(input: KOp, order_by: KOrder, _pool: KPool, _cfg: KCfg, fetch: usize) -> KOp {
            assert!(input.kind == 0);
            KOp { kind: 2, of: input.of, order: order_by, skip: 0, fetch: Some(fetch) }
        }
    }
    pub struct SortExec;
    impl SortExec {
        pub fn with_fetch(input: KOp, order_by: KOrder, fetch: usize) -> KOp {
            assert!(input.kind == 0);
            KOp { kind: 1, of: input.of, order: order_by, skip: 0, fetch: Some(fetch) }
        }
    }
    pub struct LimitExec;
    impl LimitExec {
        pub fn new(input: KOp, skip: usize, fetch: Option<usize>) -> KOp {
            assert!(input.kind == 0);
            KOp { kind: 3, of: input.of, order: KOrder(0), skip, fetch }
        }
    }
    pub struct KPlanner {
        pub memory_pool: Option<KPool>,
        pub config: Option<KCfg>,
    }
    impl KPlanner {
        pub fn use_spillable(&self) -> bool {
            self.memory_pool.is_some() && self.config.is_some()
        }
        /// oracle for the recursive call: the physical plan of that logical subtree
        pub fn create_physical_plan_inner(&self, p: &LogicalPlan) -> Result<KOp> {
            Ok(KOp { kind: 0, of: ident(p), order: KOrder(0), skip: 0, fetch: None })
        }
    }
    include!("/verif/kani/gen/kx_c25_limit_fusion.rs");

    /// every skip, every fetch (None, 0, beyond any row count), input a Sort node or anything else,
    /// spillable planner or not
    #[kani::proof]
    fn c25_kx_limit_arm_means_limit_offset() {
        let child = LogicalPlan::Other(kani::any());
        let other = LogicalPlan::Other(kani::any());
        let sort = LogicalPlan::Sort(KSortNode { input: KRef(&child), order_by: KOrder(kani::any()) });
        let input: &LogicalPlan = if kani::any() { &sort } else { &other };
        let input_id = ident(input);
        let node = KLimitNode { input: KRef(input), skip: kani::any(), fetch: if kani::any() { Some(kani::any()) } else { None } };
        let spill: bool = kani::any();
        let planner = KPlanner { memory_pool: if spill { Some(KPool) } else { None }, config: if spill { Some(KCfg) } else { None } };
        let out = planner.kx_c25_limit_fusion(&node).expect("no oracle fails");
        if out.kind == 3 {
            // LimitExec(skip, fetch) over the plan of the child
            assert!(out.of == input_id && out.skip == node.skip && out.fetch == node.fetch);
        } else {
            // a fused sort-with-fetch returns the FIRST `fetch` rows of the order: only equal to
            // LIMIT/OFFSET when there is no OFFSET, the fetch is the LIMIT and the keys are the Sort's
            assert!(out.kind == 1 || out.kind == 2);
            assert!(node.skip == 0);
            assert!(node.fetch.is_some() && out.fetch == node.fetch);
            assert!(input_id.0); // the input is a Sort node ...
            assert!(out.order.0 == input_id.1); // ... sorted by its keys ...
            assert!(out.of == (false, input_id.2, 0)); // ... over the plan of the Sort's child
            assert!((out.kind == 2) == spill);
        }
        kani::cover!(out.kind == 3 && input_id.0);
        kani::cover!(out.kind == 2);
        kani::cover!(out.kind == 1);
    }
    include!("/verif/kani/gen/playback_physical_operators_sort__fuse_c.rs");
}

/// C25: how bind_order_by (src/planner/binder.rs) turns the parsed ASC/DESC and NULLS FIRST/LAST options
/// into the SortExpr the operators above act on: ascending unless DESC is written; NULLs where the query
/// says, and LAST when it says nothing.
pub mod bind_c {
    use crate::planner::{NullOrdering, SortDirection};
    pub struct KOrderByOptions {
        pub asc: Option<bool>,
        pub nulls_first: Option<bool>,
    }
    pub struct KOrderByExpr {
        pub options: KOrderByOptions,
    }
    #[derive(Clone, Copy, PartialEq)]
    pub struct KExpr(pub u8);
    pub struct SortExpr {
        pub expr: KExpr,
        pub direction: SortDirection,
        pub nulls: NullOrdering,
    }
    include!("/verif/kani/gen/kx_c25_bind_direction_nulls.rs");

    /// all nine option combinations (loop-free, full domain)
    #[kani::proof]
    fn c25_kx_bind_order_by_direction_and_null_placement() {
        let asc: Option<bool> = if kani::any() { Some(kani::any()) } else { None };
        let nulls_first: Option<bool> = if kani::any() { Some(kani::any()) } else { None };
        let e = KExpr(kani::any());
        let s = kx_c25_bind_direction_nulls(&KOrderByExpr { options: KOrderByOptions { asc, nulls_first } }, e).expect("Ok");
        assert!(s.expr == e);
        assert!((s.direction == SortDirection::Desc) == (asc == Some(false))); // DESC exactly when written
        assert!(matches!(s.nulls, NullOrdering::NullsFirst) == (nulls_first == Some(true))); // FIRST exactly when written; default LAST
    }
    include!("/verif/kani/gen/playback_physical_operators_sort__bind_c.rs");
}

include!("/verif/kani/gen/playback_physical_operators_sort.rs");
