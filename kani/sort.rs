// Contract harness for src/physical/operators/sort.rs (property C25, full sort and fused top-k).
// SortExec concatenates its input and calls sort_batch(batch, order_by, fetch); sorting itself is
// Arrow's lexsort_to_indices (assumed contract: stable lexicographic order under each column's
// SortOptions, truncated to `limit`). What the engine decides - and what is verified here on the
// whole verbatim body of sort_batch - is WHAT it asks Arrow for: one sort column per ORDER BY key,
// in key order, evaluated from that key's expression, `descending` exactly for DESC keys,
// `nulls_first` exactly for NULLS FIRST keys, the fetch passed as the limit, and every output
// column taken with the returned indices, in column order.
#![allow(dead_code, unused_imports, unused_variables)]

pub mod sort_c {
    use crate::planner::{NullOrdering, SortDirection};

    include!("/verif/kani/inc/sort_carriers.rs");
    include!("/verif/kani/gen/kx_c25_sort_batch.rs");

    fn any_dir() -> SortDirection {
        if kani::any() { SortDirection::Asc } else { SortDirection::Desc }
    }
    fn any_nulls() -> NullOrdering {
        if kani::any() { NullOrdering::NullsFirst } else { NullOrdering::NullsLast }
    }
    /// 1..=3 ORDER BY keys with every direction x NULL placement, fetch None / Some(any), 1..=3 columns,
    /// any row count (0 included: the batch is returned as it is)
    #[kani::proof]
    #[kani::unwind(5)]
    fn c25_kx_sort_batch_asks_arrow_for_the_stated_order() {
        let nk: usize = kani::any();
        kani::assume(nk >= 1 && nk <= CAP);
        let keys = [
            SortExpr { expr: KExpr { col: kani::any() }, direction: any_dir(), nulls: any_nulls() },
            SortExpr { expr: KExpr { col: kani::any() }, direction: any_dir(), nulls: any_nulls() },
            SortExpr { expr: KExpr { col: kani::any() }, direction: any_dir(), nulls: any_nulls() },
        ];
        kani::assume(keys[0].expr.col < 50 && keys[1].expr.col < 50 && keys[2].expr.col < 50);
        let nc: usize = kani::any();
        kani::assume(nc >= 1 && nc <= CAP);
        let mut cols = Vec::new();
        let mut c = 0;
        while c < nc {
            cols.push(ArrayRef { id: c as u8, taken_with: None });
            c += 1;
        }
        let rows: usize = kani::any();
        let batch = RecordBatch { schema: KSchema { id: 9 }, cols, rows };
        let fetch: Option<usize> = if kani::any() { Some(kani::any()) } else { None };
        let out = kx_c25_sort_batch(&batch, &keys[..nk], fetch).expect("no oracle fails");
        assert!(out.schema == batch.schema && out.cols.len() == nc);
        if rows == 0 {
            let mut c = 0;
            while c < nc {
                assert!(out.cols[c] == batch.cols[c]);
                c += 1;
            }
        } else {
            let mut c = 0;
            while c < nc {
                assert!(out.cols[c].id == c as u8); // columns keep their order
                let idx = out.cols[c].taken_with.expect("every column is reordered");
                assert!(idx.n == nk && idx.limit == fetch);
                let mut k = 0;
                while k < nk {
                    let (id, desc, nf) = idx.keys[k];
                    assert!(id == 100 + keys[k].expr.col); // k-th sort column = k-th ORDER BY key
                    assert!(desc == (keys[k].direction == SortDirection::Desc));
                    assert!(nf == matches!(keys[k].nulls, NullOrdering::NullsFirst));
                    k += 1;
                }
                c += 1;
            }
        }
    }
    include!("/verif/kani/gen/playback_physical_operators_sort__sort_c.rs");
}

include!("/verif/kani/gen/playback_physical_operators_sort.rs");
