// Carriers (R6) shared by the two sort_batch units (sort.rs and spillable.rs); included inside a harness module.
    pub type Result<T> = std::result::Result<T, KErr>;
    #[derive(Debug)]
    pub struct KErr;
    #[derive(Debug)]
    pub struct KArrowErr;
    impl From<KArrowErr> for KErr {
        fn from(_: KArrowErr) -> KErr {
            KErr
        }
    }
    pub const CAP: usize = 3;
    /// `Vec` inside this module: fixed-capacity carrier (R6)
    #[derive(Clone, Copy)]
    pub struct Vec<T: Copy> {
        items: [Option<T>; CAP],
        n: usize,
    }
    impl<T: Copy> Vec<T> {
        pub fn new() -> Self {
            Vec { items: [None; CAP], n: 0 }
        }
        pub fn push(&mut self, x: T) {
            assert!(self.n < CAP, "VERIF carrier capacity (unsupported)");
            self.items[self.n] = Some(x);
            self.n += 1;
        }
        pub fn len(&self) -> usize {
            self.n
        }
        pub fn iter(&self) -> impl Iterator<Item = &T> {
            self.items[..self.n].iter().map(|o| o.as_ref().unwrap())
        }
    }
    impl<T: Copy> std::ops::Index<usize> for Vec<T> {
        type Output = T;
        fn index(&self, i: usize) -> &T {
            assert!(i < self.n);
            self.items[i].as_ref().unwrap()
        }
    }
    impl<T: Copy> FromIterator<T> for Vec<T> {
        fn from_iter<I: IntoIterator<Item = T>>(it: I) -> Self {
            let mut v = Vec::new();
            for t in it {
                v.push(t);
            }
            v
        }
    }
    /// what lexsort_to_indices was asked for (carried by the indices it returns)
    #[derive(Clone, Copy, PartialEq)]
    pub struct KIdx {
        pub keys: [(u8, bool, bool); CAP], // (key column identity, descending, nulls_first)
        pub n: usize,
        pub limit: Option<usize>,
    }
    /// a column: its identity, and the indices it was taken with (None = as in the input)
    #[derive(Clone, Copy, PartialEq)]
    pub struct ArrayRef {
        pub id: u8,
        pub taken_with: Option<KIdx>,
    }
    impl ArrayRef {
        pub fn as_ref(&self) -> &ArrayRef {
            self
        }
    }
    #[derive(Clone, Copy, PartialEq)]
    pub struct KSchema {
        pub id: u8,
    }
    #[derive(Clone, Copy)]
    pub struct RecordBatch {
        pub schema: KSchema,
        pub cols: Vec<ArrayRef>,
        pub rows: usize,
    }
    impl RecordBatch {
        pub fn num_rows(&self) -> usize {
            self.rows
        }
        pub fn columns(&self) -> &Vec<ArrayRef> {
            &self.cols
        }
        pub fn schema(&self) -> KSchema {
            self.schema
        }
        pub fn try_new(schema: KSchema, cols: Vec<ArrayRef>) -> std::result::Result<RecordBatch, KArrowErr> {
            Ok(RecordBatch { schema, cols, rows: 0 })
        }
    }
    pub struct KExpr {
        pub col: u8,
    }
    pub struct SortExpr {
        pub expr: KExpr,
        pub direction: SortDirection,
        pub nulls: NullOrdering,
    }
    /// oracle: the key column a sort expression evaluates to
    pub fn evaluate_expr(_b: &RecordBatch, e: &KExpr) -> Result<ArrayRef> {
        Ok(ArrayRef { id: 100 + e.col, taken_with: None })
    }
    #[derive(Clone, Copy)]
    pub struct SortOptions {
        pub descending: bool,
        pub nulls_first: bool,
    }
    #[derive(Clone, Copy)]
    pub struct SortColumn {
        pub values: ArrayRef,
        pub options: Option<SortOptions>,
    }
    pub mod compute {
        use super::*;
        /// Arrow: indices of the rows in lexicographic order of the sort columns (each under its own
        /// options; None = ascending, NULLs first), at most `limit` of them. The carrier records the request.
        pub fn lexsort_to_indices(cols: &Vec<SortColumn>, limit: Option<usize>) -> std::result::Result<KIdx, KArrowErr> {
            let mut keys = [(0u8, false, false); CAP];
            let mut k = 0;
            while k < cols.len() {
                let o = cols[k].options.unwrap_or(SortOptions { descending: false, nulls_first: true });
                keys[k] = (cols[k].values.id, o.descending, o.nulls_first);
                k += 1;
            }
            Ok(KIdx { keys, n: cols.len(), limit })
        }
        pub fn take(col: &ArrayRef, idx: &KIdx, _options: Option<()>) -> std::result::Result<ArrayRef, KArrowErr> {
            Ok(ArrayRef { id: col.id, taken_with: Some(*idx) })
        }
    }
