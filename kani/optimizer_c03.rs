// Contract harnesses for the statistics guards of the optimizer (property C03).
// Hooked into src/optimizer/rules/packed_join_keys.rs; the regions come from
// packed_join_keys.rs, packed_group_keys.rs, eager_aggregation.rs, group_key_reduction.rs.
#![allow(dead_code, unused_imports, unused_variables)]

/// carriers for ColumnStatistics / TableStatistics: exactly the fields the gates read
pub struct KColStats {
    pub null_count: Option<u64>,
    pub ndv_est: Option<u64>,
}
pub struct KTabStats {
    pub row_count: usize,
}

include!("/verif/kani/gen/kx_c03_join_guard.rs");
include!("/verif/kani/gen/kx_c03_join_arith.rs");
include!("/verif/kani/gen/kx_c03_group_arith.rs");
include!("/verif/kani/gen/kx_c03_eager_arith.rs");
include!("/verif/kani/gen/kx_c03_unique_gate.rs");
include!("/verif/kani/gen/kx_c03_left_count_gate.rs");

// ---------------------------------------------------------------- R3 cross-checks (std)
/// the assume_specification used by verus/c03_pack_join.vrs, against the real std function
#[kani::proof]
fn c03_r3_checked_next_power_of_two() {
    let x: u64 = kani::any();
    match x.checked_next_power_of_two() {
        Some(p) => assert!(p >= x && p >= 1),
        None => assert!(x > 0x8000_0000_0000_0000u64),
    }
}
/// the assume_specification used by verus/c03_pack_group.vrs and c03_eager_keys.vrs
#[kani::proof]
fn c03_r3_next_power_of_two() {
    let x: u64 = kani::any();
    kani::assume(x <= 0x8000_0000_0000_0000u64);
    let r = x.next_power_of_two();
    assert!(r >= x && r >= 1 && r <= 0x8000_0000_0000_0000u64);
    if x <= 0x4000_0000_0000_0000u64 {
        assert!(r <= 0x4000_0000_0000_0000u64);
    }
    assert!(r.is_power_of_two());
}

// ---------------------------------------------------------------- G1
/// the `lo < 0` guard: passes exactly when all four lower bounds are >= 0
/// (the precondition of the arithmetic region)
#[kani::proof]
#[kani::unwind(6)]
fn c03_g1_guard_nonneg() {
    let b: [(i64, i64); 4] = [(kani::any(), kani::any()), (kani::any(), kani::any()), (kani::any(), kani::any()), (kani::any(), kani::any())];
    let v = b.to_vec();
    let r = kx_c03_join_guard(&v);
    let all_nonneg = b[0].0 >= 0 && b[1].0 >= 0 && b[2].0 >= 0 && b[3].0 >= 0;
    assert!(r.is_some() == all_nonneg);
}

/// packed value with the machine operations the rewritten plan performs
fn pack_checked(a: i64, k: i64, c: i64) -> Option<i64> {
    a.checked_mul(k)?.checked_add(c)
}

/// bounded twin of verus/c03_pack_join.vrs (same region): for in-bounds keys the packed
/// value never overflows and is injective. Complete over all bounds (loop-free).
#[kani::proof]
#[kani::unwind(6)]
fn c03_g1_join_pack_twin() {
    let hi: [i64; 4] = kani::any();
    kani::assume(hi[0] >= 0 && hi[1] >= 0 && hi[2] >= 0 && hi[3] >= 0);
    let v = vec![(0i64, hi[0]), (0i64, hi[1]), (0i64, hi[2]), (0i64, hi[3])];
    if let Some(k) = kx_c03_join_arith(&v) {
        let (a, c, a2, c2): (i64, i64, i64, i64) = (kani::any(), kani::any(), kani::any(), kani::any());
        let m1 = hi[0].max(hi[1]);
        let m2 = hi[2].max(hi[3]);
        kani::assume(0 <= a && a <= m1 && 0 <= a2 && a2 <= m1 && 0 <= c && c <= m2 && 0 <= c2 && c2 <= m2);
        let p = pack_checked(a, k, c);
        let q = pack_checked(a2, k, c2);
        assert!(p.is_some() && q.is_some());
        if p == q {
            assert!(a == a2 && c == c2);
        }
    }
}

// ---------------------------------------------------------------- G2
/// PackedGroupKeys: pack, then unpack with the literals placed in the plan
/// (`pk >> shift`, `pk & mask`) returns the original pair; all bounds, all in-bounds keys.
#[kani::proof]
fn c03_g2_group_pack_unpack_roundtrip() {
    let (a_min, a_max, b_min, b_max): (i64, i64, i64, i64) = (kani::any(), kani::any(), kani::any(), kani::any());
    kani::assume(a_min <= a_max && b_min <= b_max);
    if let Some((k, shift, mask)) = kx_c03_group_arith(a_min, a_max, b_min, b_max) {
        let (a, b): (i64, i64) = (kani::any(), kani::any());
        kani::assume(a_min <= a && a <= a_max && b_min <= b && b <= b_max);
        let pk = pack_checked(a, k as i64, b);
        assert!(pk.is_some());
        let pk = pk.unwrap();
        assert!(shift >= 0 && shift < 64);
        // the Project above the aggregate unpacks with the engine's BITWISE_RIGHT_SHIFT, which
        // filter.rs evaluates as a LOGICAL shift on u64, and BITWISE_AND
        assert!(((pk as u64) >> shift) as i64 == a);
        assert!(pk & mask == b);
    }
}

// ---------------------------------------------------------------- G3
/// EagerAggregation::build_keys: the multiplier placed in both packed expressions keeps
/// packing overflow-free and injective for every in-bounds pair (all bounds).
#[kani::proof]
#[kani::unwind(4)]
fn c03_g3_eager_pack_twin() {
    let (m0, m1): (i64, i64) = (kani::any(), kani::any());
    kani::assume(m0 >= 0 && m1 >= 0);
    let v = vec![m0, m1];
    if let Some(k) = kx_c03_eager_arith(&v) {
        let (a, c, a2, c2): (i64, i64, i64, i64) = (kani::any(), kani::any(), kani::any(), kani::any());
        kani::assume(0 <= a && a <= m0 && 0 <= a2 && a2 <= m0 && 0 <= c && c <= m1 && 0 <= c2 && c2 <= m1);
        let p = pack_checked(a, k, c);
        let q = pack_checked(a2, k, c2);
        assert!(p.is_some() && q.is_some());
        if p == q {
            assert!(a == a2 && c == c2);
        }
    }
}

// ---------------------------------------------------------------- G4 uniqueness gates
/// statistics of a 3-row column exactly as ParquetTable::compute_statistics derives them
/// (C18): exact row and null counts, min/max over the non-NULL values,
/// ndv_est = min(non_null, max - min + 1).
fn stats_of(rows: &[Option<i64>; 3]) -> (KColStats, KTabStats) {
    let mut nulls = 0u64;
    let mut mn: Option<i64> = None;
    let mut mx: Option<i64> = None;
    let mut i = 0;
    while i < 3 {
        match rows[i] {
            None => nulls += 1,
            Some(v) => {
                mn = Some(mn.map_or(v, |m| m.min(v)));
                mx = Some(mx.map_or(v, |m| m.max(v)));
            }
        }
        i += 1;
    }
    let non_null = 3 - nulls;
    let ndv_est = match (mn, mx) {
        (Some(a), Some(b)) => Some(non_null.min((b as i128 - a as i128) as u64 + 1)),
        _ => None,
    };
    (KColStats { null_count: Some(nulls), ndv_est }, KTabStats { row_count: 3 })
}
fn any_rows() -> [Option<i64>; 3] {
    let mut r = [None; 3];
    let mut i = 0;
    while i < 3 {
        if kani::any() {
            let v: i64 = kani::any();
            kani::assume(v > -1000 && v < 1000);
            r[i] = Some(v);
        }
        i += 1;
    }
    r
}
fn has_null(r: &[Option<i64>; 3]) -> bool {
    r[0].is_none() || r[1].is_none() || r[2].is_none()
}
fn has_dup(r: &[Option<i64>; 3]) -> bool {
    (r[0].is_some() && (r[0] == r[1] || r[0] == r[2])) || (r[1].is_some() && r[1] == r[2])
}

/// GroupKeyReduction::is_unique_key gate: "unique" must mean no NULL and no duplicate in
/// EVERY table consistent with the statistics. B(3 rows). Expected to expose D3.
#[kani::proof]
#[kani::unwind(5)]
fn c03_g4_unique_gate() {
    let rows = any_rows();
    let (cs, st) = stats_of(&rows);
    if kx_c03_unique_gate(&cs, &st) {
        assert!(!has_null(&rows));
        assert!(!has_dup(&rows));
    }
}
#[kani::proof]
#[kani::unwind(5)]
fn c03_g4_unique_gate__excluding_known() {
    let rows = any_rows();
    kani::assume(!has_dup(&rows)); // D3: duplicates cannot be excluded from min/max/count
    let (cs, st) = stats_of(&rows);
    let g = kx_c03_unique_gate(&cs, &st);
    if g {
        assert!(!has_null(&rows));
    }
    kani::cover!(g);
    kani::cover!(!g);
}
/// EagerAggregation::try_rewrite_left_count gate (same inference).
#[kani::proof]
#[kani::unwind(5)]
fn c03_g4_left_count_gate() {
    let rows = any_rows();
    let (cs, st) = stats_of(&rows);
    if kx_c03_left_count_gate(&cs, &st).is_some() {
        assert!(!has_null(&rows));
        assert!(!has_dup(&rows));
    }
}
#[kani::proof]
#[kani::unwind(5)]
fn c03_g4_left_count_gate__excluding_known() {
    let rows = any_rows();
    kani::assume(!has_dup(&rows));
    let (cs, st) = stats_of(&rows);
    let g = kx_c03_left_count_gate(&cs, &st).is_some();
    if g {
        assert!(!has_null(&rows));
    }
    kani::cover!(g);
}
/// statistics without a null count or an NDV estimate never prove uniqueness.
#[kani::proof]
fn c03_g4_gates_need_statistics() {
    let st = KTabStats { row_count: kani::any() };
    let cs = KColStats { null_count: None, ndv_est: kani::any() };
    assert!(!kx_c03_unique_gate(&cs, &st));
    assert!(kx_c03_left_count_gate(&cs, &st).is_none());
    let cs2 = KColStats { null_count: kani::any(), ndv_est: None };
    assert!(!kx_c03_unique_gate(&cs2, &st));
    assert!(kx_c03_left_count_gate(&cs2, &st).is_none());
    let n: u64 = kani::any();
    kani::assume(n > 0);
    let cs3 = KColStats { null_count: Some(n), ndv_est: kani::any() };
    assert!(!kx_c03_unique_gate(&cs3, &st));
    assert!(kx_c03_left_count_gate(&cs3, &st).is_none());
}

include!("/verif/kani/gen/playback_optimizer_rules_packed_join_keys.rs");
