// Contract harnesses for src/execution/memory.rs (property C33), sequential steps.
// Ghost invariant J: used == L, L = sum of the sizes of live reservations.
// Every harness starts from an ARBITRARY pool state (any `used`, any `max_memory`),
// so each is the inductive step "J before the call ==> J after the call"; the
// interference argument (which atomic writes a method may issue at all, under stale
// loads and failing CAS) is the Verus unit verus/c33_pool.vrs.
#![allow(dead_code, unused_imports)]
use super::*;
use std::sync::atomic::Ordering;

fn any_pool() -> (MemoryPool, usize, usize) {
    let max: usize = kani::any();
    let used0: usize = kani::any();
    let pool = MemoryPool::new(max);
    pool.used.store(used0, Ordering::SeqCst);
    (pool, max, used0)
}

/// try_allocate: granted iff used + size fits the limit without wrapping; then
/// used' = used + size and the reservation records `size`; otherwise nothing changes.
#[kani::proof]
#[kani::unwind(2)]
fn c33_k_try_allocate_step() {
    let (pool, max, used0) = any_pool();
    let size: usize = kani::any();
    let fits = (used0 as u128) + (size as u128) <= max as u128;
    let r = pool.try_allocate(size);
    match r {
        Some(res) => {
            assert!(fits);
            assert!(pool.used() == used0 + size);
            assert!(pool.used() <= max);
            assert!(res.size() == size);
            assert!(std::ptr::eq(res.pool, &pool));
            kani::cover!(size > 0 && used0 > 0);
            std::mem::forget(res);
        }
        None => {
            assert!(!fits);
            assert!(pool.used() == used0);
            kani::cover!(used0 <= max);
        }
    };
}

/// allocate (unconditional): used' = used + size.
#[kani::proof]
fn c33_k_allocate_step() {
    let (pool, _max, used0) = any_pool();
    let size: usize = kani::any();
    kani::assume(used0.checked_add(size).is_some()); // L <= usize::MAX
    let res = pool.allocate(size);
    assert!(pool.used() == used0 + size);
    assert!(res.size() == size);
    assert!(std::ptr::eq(res.pool, &pool));
    std::mem::forget(res);
}

/// Drop releases exactly the recorded size, once: used' = used - size (no underflow under J).
#[kani::proof]
fn c33_k_drop_step() {
    let (pool, _max, used0) = any_pool();
    let size: usize = kani::any();
    kani::assume(used0 >= size); // J: this reservation is part of `used`
    let res = MemoryReservation { pool: &pool, size };
    drop(res);
    assert!(pool.used() == used0 - size);
}

/// resize: used' = used - old + new, the reservation records the new size.
#[kani::proof]
fn c33_k_resize_step() {
    let (pool, _max, used0) = any_pool();
    let (old, new): (usize, usize) = (kani::any(), kani::any());
    kani::assume(used0 >= old);
    kani::assume((used0 - old).checked_add(new).is_some());
    let mut res = MemoryReservation { pool: &pool, size: old };
    res.resize(new);
    assert!(pool.used() == used0 - old + new);
    assert!(res.size() == new);
    kani::cover!(new > old);
    kani::cover!(new < old);
    std::mem::forget(res);
}

/// available = max - used, saturating; used()/max() are pure reads.
#[kani::proof]
fn c33_k_reads() {
    let (pool, max, used0) = any_pool();
    assert!(pool.used() == used0);
    assert!(pool.max() == max);
    assert!(pool.available() == max.saturating_sub(used0));
    assert!(pool.used() == used0);
}

/// A whole life cycle from an arbitrary state returns `used` to where it started
/// (usage returns to zero when all reservations are dropped).
#[kani::proof]
#[kani::unwind(2)]
fn c33_k_lifecycle_returns_to_start() {
    let (pool, max, used0) = any_pool();
    let (a, b, c): (usize, usize, usize) = (kani::any(), kani::any(), kani::any());
    kani::assume(used0 <= max);
    {
        let r1 = pool.try_allocate(a);
        if let Some(mut r1) = r1 {
            assert!(pool.used() <= max);
            kani::assume((pool.used() - a).checked_add(b).is_some());
            r1.resize(b);
            kani::assume(pool.used().checked_add(c).is_some());
            let r2 = pool.allocate(c);
            assert!(pool.used() == used0 + b + c);
            drop(r1);
            assert!(pool.used() == used0 + c);
            drop(r2);
        }
    }
    assert!(pool.used() == used0);
}

include!("/verif/kani/gen/playback_execution_memory.rs");
