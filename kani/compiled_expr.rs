// Contract harnesses for src/physical/compiled_expr.rs (properties C06 and C02).
// Oracle for the interpreter's comparison kernels (arrow::compute::kernels::cmp::*): their
// per-element semantics are ArrowNativeTypeOp::{is_eq,is_ne,is_lt,is_le,is_gt,is_ge};
// the harness calls those REAL functions on the same scalars (total order for floats).
#![allow(dead_code, unused_imports, unused_variables)]
use super::*;
use arrow::array::ArrowNativeTypeOp;

fn any_cmp() -> Cmp {
    let k: u8 = kani::any();
    kani::assume(k < 6);
    match k {
        0 => Cmp::Eq,
        1 => Cmp::Ne,
        2 => Cmp::Lt,
        3 => Cmp::Le,
        4 => Cmp::Gt,
        _ => Cmp::Ge,
    }
}
fn interp_f64(op: Cmp, a: f64, b: f64) -> bool {
    match op {
        Cmp::Eq => a.is_eq(b),
        Cmp::Ne => a.is_ne(b),
        Cmp::Lt => a.is_lt(b),
        Cmp::Le => a.is_le(b),
        Cmp::Gt => a.is_gt(b),
        Cmp::Ge => a.is_ge(b),
    }
}
fn interp_i64(op: Cmp, a: i64, b: i64) -> bool {
    match op {
        Cmp::Eq => a.is_eq(b),
        Cmp::Ne => a.is_ne(b),
        Cmp::Lt => a.is_lt(b),
        Cmp::Le => a.is_le(b),
        Cmp::Gt => a.is_gt(b),
        Cmp::Ge => a.is_ge(b),
    }
}
fn interp_i32(op: Cmp, a: i32, b: i32) -> bool {
    match op {
        Cmp::Eq => a.is_eq(b),
        Cmp::Ne => a.is_ne(b),
        Cmp::Lt => a.is_lt(b),
        Cmp::Le => a.is_le(b),
        Cmp::Gt => a.is_gt(b),
        Cmp::Ge => a.is_ge(b),
    }
}
fn pred(prog: Vec<Instr>, out: u8, f_regs: usize, m_regs: usize) -> CompiledPredicate {
    CompiledPredicate { cols: vec![], col_types: vec![], prog, out, f_regs, m_regs }
}
fn run(cp: &CompiledPredicate, len: usize) -> (Vec<[f64; CHUNK]>, Vec<[u8; CHUNK]>) {
    let mut f = vec![[0f64; CHUNK]; cp.f_regs.max(1)];
    let mut m = vec![[0u8; CHUNK]; cp.m_regs.max(1)];
    cp.eval_chunk(&[], 0, len, &mut f, &mut m);
    (f, m)
}
/// Single-instruction programs over PRE-FILLED register slabs: with several instructions CBMC
/// unfolds every arm of the interpreter loop for every program slot (the instruction's enum
/// tag is read back from the Vec), which exceeds 10 min; one instruction per harness keeps
/// each obligation to seconds. Registers hold (x, y) / (p, q) in rows 0 and 1.
fn run1(ins: Instr, f_regs: usize, m_regs: usize, fx: [f64; 2], fy: [f64; 2], mx: [u8; 2], my: [u8; 2]) -> (Vec<[f64; CHUNK]>, Vec<[u8; CHUNK]>) {
    let cp = pred(vec![ins], 0, f_regs, m_regs);
    let mut f = vec![[0f64; CHUNK]; f_regs.max(1)];
    let mut m = vec![[0u8; CHUNK]; m_regs.max(1)];
    if f_regs >= 2 {
        f[0][0] = fx[0];
        f[0][1] = fx[1];
        f[1][0] = fy[0];
        f[1][1] = fy[1];
    }
    if m_regs >= 2 {
        m[0][0] = mx[0];
        m[0][1] = mx[1];
        m[1][0] = my[0];
        m[1][1] = my[1];
    }
    cp.eval_chunk(&[], 0, 2, &mut f, &mut m);
    (f, m)
}
/// D7: where IEEE comparison and Arrow's total order differ
fn d7_class(x: f64, y: f64) -> bool {
    x.is_nan() || y.is_nan() || (x == 0.0 && y == 0.0)
}

// ---------------------------------------------------------------- C06 comparison kernels
/// CmpF64, scalar/scalar shape: all bit patterns, all six operators (expected to expose D7)
#[kani::proof]
#[kani::unwind(4)]
fn c06_cmp_f64_scalars() {
    let (x, y): (f64, f64) = (kani::any(), kani::any());
    let op = any_cmp();
    let cp = pred(vec![Instr::CmpF64 { a: Src::LitF64(x), b: Src::LitF64(y), op, dst: 0 }], 0, 0, 1);
    let (_f, m) = run(&cp, 2);
    assert!((m[0][0] != 0) == interp_f64(op, x, y));
    assert!(m[0][1] == m[0][0]);
}
#[kani::proof]
#[kani::unwind(4)]
fn c06_cmp_f64_scalars__excluding_known() {
    let (x, y): (f64, f64) = (kani::any(), kani::any());
    kani::assume(!d7_class(x, y));
    let op = any_cmp();
    let cp = pred(vec![Instr::CmpF64 { a: Src::LitF64(x), b: Src::LitF64(y), op, dst: 0 }], 0, 0, 1);
    let (_f, m) = run(&cp, 2);
    assert!(m[0][0] <= 1);
    assert!((m[0][0] != 0) == interp_f64(op, x, y));
    assert!(m[0][1] == m[0][0]);
    kani::cover!(m[0][0] == 1);
    kani::cover!(m[0][0] == 0);
}
/// CmpF64 with register operands: the three slice shapes keep the operand order
/// (one harness per shape; the instruction list is concrete)
macro_rules! shape_harness {
    ($name:ident, $a:expr, $b:expr) => {
        #[kani::proof]
        #[kani::unwind(4)]
        fn $name() {
            // two rows with independent values: a swapped or shifted operand would show
            let (x0, y0, x1, y1): (f64, f64, f64, f64) = (kani::any(), kani::any(), kani::any(), kani::any());
            let a: fn(f64) -> Src = $a;
            let b: fn(f64) -> Src = $b;
            // a literal operand is the same for both rows
            let lit_a = matches!(a(0.0), Src::LitF64(_));
            let lit_b = matches!(b(0.0), Src::LitF64(_));
            kani::assume(!lit_a || x0.to_bits() == x1.to_bits());
            kani::assume(!lit_b || y0.to_bits() == y1.to_bits());
            kani::assume(!d7_class(x0, y0) && !d7_class(x1, y1));
            let op = any_cmp();
            let (_f, m) = run1(Instr::CmpF64 { a: a(x0), b: b(y0), op, dst: 2 }, 2, 3, [x0, x1], [y0, y1], [0; 2], [0; 2]);
            assert!((m[2][0] != 0) == interp_f64(op, x0, y0));
            assert!((m[2][1] != 0) == interp_f64(op, x1, y1));
        }
    };
}
shape_harness!(c06_cmp_f64_shape_reg_lit__excluding_known, |_x| Src::Reg(0), |y| Src::LitF64(y));
shape_harness!(c06_cmp_f64_shape_lit_reg__excluding_known, |x| Src::LitF64(x), |_y| Src::Reg(1));
shape_harness!(c06_cmp_f64_shape_reg_reg__excluding_known, |_x| Src::Reg(0), |_y| Src::Reg(1));
#[kani::proof]
#[kani::unwind(4)]
fn c06_cmp_i64_scalars() {
    let (x, y): (i64, i64) = (kani::any(), kani::any());
    let op = any_cmp();
    let cp = pred(vec![Instr::CmpI64 { a: Src::LitI64(x), b: Src::LitI64(y), op, dst: 0 }], 0, 0, 1);
    let (_f, m) = run(&cp, 2);
    assert!(m[0][0] <= 1);
    assert!((m[0][0] != 0) == interp_i64(op, x, y));
    assert!(m[0][1] == m[0][0]);
}
#[kani::proof]
#[kani::unwind(4)]
fn c06_cmp_i32_scalars() {
    let (x, y): (i32, i32) = (kani::any(), kani::any());
    let op = any_cmp();
    let cp = pred(vec![Instr::CmpI32 { a: Src::LitI32(x), b: Src::LitI32(y), op, dst: 0 }], 0, 0, 1);
    let (_f, m) = run(&cp, 2);
    assert!(m[0][0] <= 1);
    assert!((m[0][0] != 0) == interp_i32(op, x, y));
}
/// f64 arithmetic: bit-equal to the IEEE operation the interpreter's kernel performs
macro_rules! arith_harness {
    ($name:ident, $op:expr, $f:expr) => {
        #[kani::proof]
        #[kani::unwind(4)]
        fn $name() {
            let (x0, y0, x1, y1): (f64, f64, f64, f64) = (kani::any(), kani::any(), kani::any(), kani::any());
            kani::assume(x0.abs() <= 1.0e150 && y0.abs() <= 1.0e150 && x1.abs() <= 1.0e150 && y1.abs() <= 1.0e150);
            let f: fn(f64, f64) -> f64 = $f;
            let (fr, _m) = run1(Instr::Arith { op: $op, a: 0, b: 1, dst: 2 }, 3, 0, [x0, x1], [y0, y1], [0; 2], [0; 2]);
            assert!(fr[2][0].to_bits() == f(x0, y0).to_bits());
            assert!(fr[2][1].to_bits() == f(x1, y1).to_bits());
            assert!(fr[0][0].to_bits() == x0.to_bits() && fr[1][1].to_bits() == y1.to_bits()); // operands untouched
        }
    };
}
arith_harness!(c06_arith_f64_add, BinaryOp::Add, |x, y| x + y);
arith_harness!(c06_arith_f64_sub, BinaryOp::Subtract, |x, y| x - y);
arith_harness!(c06_arith_f64_mul, BinaryOp::Multiply, |x, y| x * y);
/// LitF64 fills its register with the literal
#[kani::proof]
#[kani::unwind(4)]
fn c06_lit_f64_fills_register() {
    let v: f64 = kani::any();
    let (fr, _m) = run1(Instr::LitF64 { v, dst: 1 }, 2, 0, [1.0, 2.0], [3.0, 4.0], [0; 2], [0; 2]);
    assert!(fr[1][0].to_bits() == v.to_bits() && fr[1][1].to_bits() == v.to_bits());
    assert!(fr[0][0] == 1.0 && fr[0][1] == 2.0);
}

// ---------------------------------------------------------------- C06 bit packing (region of evaluate)
include!("/verif/kani/gen/kx_c06_pack_bits.rs");
/// the 0/1 chunk is packed LSB-first into bytes: bit i of the packed buffer == (out[i] != 0)
/// for every i < len, and nothing beyond len is set. B(len <= 19: two full bytes + a ragged tail).
#[kani::proof]
#[kani::unwind(21)]
fn c06_pack_bits_region() {
    let len: usize = kani::any();
    kani::assume(len <= 19);
    let mut out = [0u8; CHUNK];
    let mut i = 0;
    while i < 19 {
        let b: bool = kani::any();
        out[i] = b as u8; // masks are 0/1 (c06_cmp_* obligations)
        i += 1;
    }
    let packed = kx_c06_pack_bits(&out, len);
    let mut k = 0;
    while k < 19 {
        let bit = (packed[k / 8] >> (k % 8)) & 1;
        if k < len {
            assert!(bit == out[k]);
        } else if k / 8 >= (len + 7) / 8 {
            assert!(bit == 0);
        }
        k += 1;
    }
    kani::cover!(len == 19);
    kani::cover!(len % 8 == 0 && len > 0);
}

// ---------------------------------------------------------------- C02 / O1 mask algebra
/// And / Or / Not over 0/1 masks: d == x&y / x|y / 1-x, operands untouched, for all
/// combinations (masks produced by integer comparisons of literals). One harness per
/// instruction kind: a symbolic instruction makes CBMC unfold every arm of the interpreter
/// loop for every program slot (measured: 36 GB).
macro_rules! mask_harness {
    ($name:ident, $last:expr, $want:expr) => {
        #[kani::proof]
        #[kani::unwind(4)]
        fn $name() {
            let (p0, q0, p1, q1): (bool, bool, bool, bool) = (kani::any(), kani::any(), kani::any(), kani::any());
            let (_f, m) = run1($last, 0, 3, [0.0; 2], [0.0; 2], [p0 as u8, p1 as u8], [q0 as u8, q1 as u8]);
            let f: fn(bool, bool) -> bool = $want;
            assert!(m[2][0] == f(p0, q0) as u8 && m[2][1] == f(p1, q1) as u8);
            assert!(m[0][0] == p0 as u8 && m[1][1] == q1 as u8);
        }
    };
}
mask_harness!(c02_o1_mask_and, Instr::And { a: 0, b: 1, dst: 2 }, |p, q| p && q);
mask_harness!(c02_o1_mask_or, Instr::Or { a: 0, b: 1, dst: 2 }, |p, q| p || q);
mask_harness!(c02_o1_mask_not, Instr::Not { a: 0, dst: 2 }, |p, _q| !p);

// ---------------------------------------------------------------- C02 / O2 compiled validity (region)
pub struct KArr {
    valid: [bool; 2],
}
impl KArr {
    pub fn as_any_array(&self) -> &KArr {
        self
    }
    pub fn is_valid(&self, row: usize) -> bool {
        self.valid[row]
    }
    pub fn null_count(&self) -> usize {
        (!self.valid[0]) as usize + (!self.valid[1]) as usize
    }
}
include!("/verif/kani/gen/kx_c02_validity.rs");
/// `self` of the region: the two register counts the slab allocation reads
pub struct KPred {
    f_regs: usize,
    m_regs: usize,
}
include!("/verif/kani/gen/kx_c02_valid_bits_init.rs");

const T: u8 = 1;
const F: u8 = 0;
const N: u8 = 2;
fn or3(a: u8, b: u8) -> u8 {
    if a == T || b == T { T } else if a == F && b == F { F } else { N }
}
fn and3(a: u8, b: u8) -> u8 {
    if a == F || b == F { F } else if a == T && b == T { T } else { N }
}
/// `a < c1  OP  b < c2` over two nullable Int64 columns, one row: the mask the compiled
/// predicate reports — value from eval_chunk's And/Or, validity from the real validity
/// region — must keep the row exactly when the SQL three-valued result is TRUE.
/// (expected to expose D1: validity is the AND of all leaf validities)
fn kleene_check(excluding_known: bool) {
    let (va, vb): (bool, bool) = (kani::any(), kani::any()); // column validity of the row
    let (ta, tb): (bool, bool) = (kani::any(), kani::any()); // truth of each comparison when valid
    let is_or: bool = kani::any();
    let arrays = vec![KArr { valid: [va, true] }, KArr { valid: [vb, true] }];
    // every statement between the column loop and the chunk loop (region): decides whether a validity bitmap exists
    let mut valid_bits: Option<Vec<bool>> = KPred { f_regs: 1, m_regs: 1 }.kx_c02_valid_bits_init(&arrays, 1);
    // (that a NULL in any referenced column makes the bitmap exist is its own obligation: c02_o2_bitmap_exists_for_null_column)
    kx_c02_validity(&mut valid_bits, &arrays, 0, 1);
    let row_valid = match &valid_bits {
        None => true,
        Some(v) => v[0],
    };
    // value bit: for a NULL cell the values buffer holds an arbitrary number, so the leaf mask is arbitrary
    let (ga, gb): (bool, bool) = (kani::any(), kani::any());
    let ma = if va { ta } else { ga };
    let mb = if vb { tb } else { gb };
    let value = if is_or { ma || mb } else { ma && mb };
    let kept = row_valid && value;
    let a3 = if va { ta as u8 } else { N };
    let b3 = if vb { tb as u8 } else { N };
    let sql = if is_or { or3(a3, b3) } else { and3(a3, b3) };
    if excluding_known {
        // D1 class: one operand NULL while the other decides the result
        kani::assume(!((a3 == N) != (b3 == N) && sql != N));
    }
    assert!(kept == (sql == T));
    std::mem::forget((arrays, valid_bits));
}
/// the statements of evaluate between the column loop and the chunk loop (region): whenever any
/// referenced column holds a NULL, a validity bitmap must exist (otherwise NULL cells are read as values)
#[kani::proof]
#[kani::unwind(4)]
fn c02_o2_bitmap_exists_for_null_column() {
    let v: [bool; 4] = [kani::any(), kani::any(), kani::any(), kani::any()];
    let two: bool = kani::any();
    let arrays = if two {
        vec![KArr { valid: [v[0], v[1]] }, KArr { valid: [v[2], v[3]] }]
    } else {
        vec![KArr { valid: [v[0], v[1]] }]
    };
    let any_null = !v[0] || !v[1] || (two && (!v[2] || !v[3]));
    let valid_bits = KPred { f_regs: 1, m_regs: 1 }.kx_c02_valid_bits_init(&arrays, 2);
    assert!(valid_bits.is_some() || !any_null);
    std::mem::forget((arrays, valid_bits));
}
#[kani::proof]
#[kani::unwind(4)]
fn c02_o2_compiled_validity_kleene() {
    kleene_check(false);
}
#[kani::proof]
#[kani::unwind(4)]
fn c02_o2_compiled_validity_kleene__excluding_known() {
    kleene_check(true);
}


// ---------------------------------------------------------------- C06 / C02: the whole chunk loop of evaluate
/// Everything `evaluate` does between resolving the columns and building the BooleanArray, verbatim:
/// slab allocation, the decision whether a validity bitmap exists, the `while start < n` chunk loop
/// (eval_chunk call, bit packing, append, validity rows). Run over SEVERAL chunks with a ragged tail,
/// so state that survives from one chunk into the next (slabs, scratch buffers, cursors) is inside the
/// verified text. CHUNK is 16 here (R6: the text is parametric in CHUNK).
pub mod loop_c {
    pub const CHUNK: usize = 8;
    pub const MAXN: usize = 2 * CHUNK + 3;
    /// `Vec<bool>` of the region (the validity bitmap): fixed-capacity carrier (R6)
    pub struct Vec<T: Copy> {
        buf: [T; MAXN],
        len: usize,
    }
    impl Vec<bool> {
        pub fn with_capacity(_n: usize) -> Self {
            Vec { buf: [false; MAXN], len: 0 }
        }
        pub fn push(&mut self, t: bool) {
            assert!(self.len < MAXN, "VERIF carrier capacity (unsupported)");
            self.buf[self.len] = t;
            self.len += 1;
        }
        pub fn len(&self) -> usize {
            self.len
        }
    }
    impl std::ops::Index<usize> for Vec<bool> {
        type Output = bool;
        fn index(&self, i: usize) -> &bool {
            assert!(i < self.len, "index out of bounds");
            &self.buf[i]
        }
    }
    /// `vec![[0; CHUNK]; k]` of the region (register slabs): carrier holding k <= 2 slabs
    pub struct Slabs<T: Copy> {
        s: [[T; CHUNK]; 2],
        k: usize,
    }
    impl<T: Copy> Slabs<T> {
        pub fn from_elem(e: [T; CHUNK], k: usize) -> Self {
            assert!(k <= 2, "VERIF carrier capacity (unsupported)");
            Slabs { s: [e; 2], k }
        }
    }
    impl<T: Copy> std::ops::Index<usize> for Slabs<T> {
        type Output = [T; CHUNK];
        fn index(&self, i: usize) -> &[T; CHUNK] {
            assert!(i < self.k, "index out of bounds");
            &self.s[i]
        }
    }
    impl<T: Copy> std::ops::IndexMut<usize> for Slabs<T> {
        fn index_mut(&mut self, i: usize) -> &mut [T; CHUNK] {
            assert!(i < self.k, "index out of bounds");
            &mut self.s[i]
        }
    }
    macro_rules! vec {
        ($e:expr; $n:expr) => {
            Slabs::from_elem($e, $n)
        };
    }
    /// the referenced columns (1 or 2), each seen as its validity
    pub struct KArrs {
        pub cols: [KArr; 2],
        pub n: usize,
    }
    impl KArrs {
        pub fn iter(&self) -> std::slice::Iter<'_, KArr> {
            self.cols[..self.n].iter()
        }
    }
    #[derive(Clone, Copy)]
    pub struct KArr {
        pub valid: [bool; MAXN],
    }
    impl KArr {
        pub fn as_any_array(&self) -> &KArr {
            self
        }
        pub fn is_valid(&self, row: usize) -> bool {
            self.valid[row]
        }
        pub fn null_count(&self) -> usize {
            let mut c = 0;
            let mut i = 0;
            while i < MAXN {
                c += (!self.valid[i]) as usize;
                i += 1;
            }
            c
        }
    }
    pub mod arrow {
        pub mod array {
            pub mod builder {
                /// Arrow's BooleanBufferBuilder, as far as evaluate uses it
                pub struct BooleanBufferBuilder {
                    pub bits: [bool; super::super::super::MAXN],
                    pub len: usize,
                }
                impl BooleanBufferBuilder {
                    pub fn new(_capacity: usize) -> Self {
                        BooleanBufferBuilder { bits: [false; super::super::super::MAXN], len: 0 }
                    }
                    /// appends bits range.start..range.end of `to_set` (LSB first within each byte)
                    pub fn append_packed_range(&mut self, range: std::ops::Range<usize>, to_set: &[u8]) {
                        let mut i = range.start;
                        while i < range.end {
                            self.bits[self.len] = (to_set[i / 8] >> (i % 8)) & 1 == 1;
                            self.len += 1;
                            i += 1;
                        }
                    }
                }
            }
        }
    }
    /// `self`: register counts, the output register, and (oracle state) the truth of every row
    pub struct KPred {
        pub f_regs: usize,
        pub m_regs: usize,
        pub out: u16,
        pub truth: [bool; MAXN],
    }
    impl KPred {
        /// contract oracle for eval_chunk: m[out][i] = truth of row start+i for i < len (0/1); the
        /// rest of every slab keeps whatever an earlier chunk left there
        pub fn eval_chunk(&self, _arrays: &KArrs, start: usize, len: usize, _f: &mut Slabs<f64>, m: &mut Slabs<u8>) {
            let mut i = 0;
            while i < len {
                m[self.out as usize][i] = self.truth[start + i] as u8;
                i += 1;
            }
        }
    }
    include!("/verif/kani/gen/kx_c06_chunk_loop.rs");

    /// One batch length per harness (a symbolic length with std Vec exceeded 20 min): one or two referenced
    /// columns with any NULL pattern, any row truths: bit r of the appended mask is the truth of row r,
    /// exactly n bits are appended, and the validity bitmap (present whenever a column has a NULL) marks
    /// row r valid iff every referenced column is valid there.
    fn chunk_loop_check(n: usize) {
        let two: bool = kani::any();
        let arrays = KArrs { cols: [KArr { valid: kani::any() }, KArr { valid: kani::any() }], n: if two { 2 } else { 1 } };
        let p = KPred { f_regs: 1, m_regs: 1, out: 0, truth: kani::any() };
        let (b, vb) = p.kx_c06_chunk_loop(&arrays, n);
        assert!(b.len == n);
        let mut any_null = false;
        let mut r = 0;
        while r < MAXN {
            let valid = arrays.cols[0].valid[r] && (!two || arrays.cols[1].valid[r]);
            if !valid {
                any_null = true; // null_count() counts the whole array
            }
            if r < n {
                assert!(b.bits[r] == p.truth[r]);
                if let Some(v) = &vb {
                    assert!(v[r] == valid);
                }
            }
            r += 1;
        }
        match &vb {
            Some(v) => assert!(v.len() == n),
            None => assert!(!any_null),
        }
    }
    /// 19 rows = chunks of 8, 8 and a ragged 3
    #[kani::proof]
    #[kani::unwind(21)]
    fn c06_kx_chunk_loop_n19() {
        chunk_loop_check(19);
    }
    /// 13 rows = a full chunk, then a ragged 5
    #[kani::proof]
    #[kani::unwind(21)]
    fn c06_kx_chunk_loop_n13() {
        chunk_loop_check(13);
    }
    /// exactly one chunk / a single ragged chunk / no rows
    #[kani::proof]
    #[kani::unwind(21)]
    fn c06_kx_chunk_loop_n8() {
        chunk_loop_check(8);
    }
    #[kani::proof]
    #[kani::unwind(21)]
    fn c06_kx_chunk_loop_n5() {
        chunk_loop_check(5);
    }
    #[kani::proof]
    #[kani::unwind(21)]
    fn c06_kx_chunk_loop_n0() {
        chunk_loop_check(0);
    }
    include!("/verif/kani/gen/playback_physical_compiled_expr__loop_c.rs");
}

include!("/verif/kani/gen/playback_physical_compiled_expr.rs");
