// Contract harnesses for src/physical/morsel_agg.rs (property C21, morsel path).
// Ghost model: a group's input is a sequence of Option<value>; for the non-NULL
// values cnt = #, sum = Σ, mn/mx = min/max. SQL: COUNT = cnt; SUM/AVG/MIN/MAX are
// NULL iff cnt == 0. Abstraction of the private state machine:
//   Count(c)            -> cnt = c
//   Sum(s, seen)        -> (sum = s, nonempty = seen)
//   SumInt(s, seen)     -> (sum = s, nonempty = seen)
//   Avg{sum,count}      -> (sum, cnt = count)
//   Min(o) / Max(o)     -> o (None = no non-NULL input yet)
// Every harness starts from an ARBITRARY state of the variant, so each is the
// inductive step over the row sequence / the merge tree.
#![allow(dead_code, unused_imports, unused_variables)]
use super::*;
use ordered_float::OrderedFloat;

/// Stub for the derived `ScalarValue::clone`: identical on the scalar variants the
/// harnesses use; any other variant fails the harness (never assumed away). Without it
/// CBMC unfolds the clone glue of `List(Vec<ScalarValue>, Box<DataType>)` recursively.
fn stub_scalar_clone(v: &ScalarValue) -> ScalarValue {
    match v {
        ScalarValue::Null => ScalarValue::Null,
        ScalarValue::Boolean(b) => ScalarValue::Boolean(*b),
        ScalarValue::Int32(x) => ScalarValue::Int32(*x),
        ScalarValue::Int64(x) => ScalarValue::Int64(*x),
        ScalarValue::Float64(x) => ScalarValue::Float64(*x),
        ScalarValue::Date32(x) => ScalarValue::Date32(*x),
        _ => panic!("VERIF stub: ScalarValue variant outside the harness domain (unsupported)"),
    }
}


/// the SQL aggregates of the property, with an arbitrary state each. The enum variant
/// (and for MIN/MAX whether a value has been seen) is CONCRETE per harness, so CBMC
/// constant-folds the discriminants instead of carrying every ScalarValue variant's glue.
/// a float whose sums with another such float stay finite (floating overflow to
/// inf / inf - inf = NaN is engine-defined behaviour outside the property)
fn any_f64() -> f64 {
    let x: f64 = kani::any();
    kani::assume(x.abs() <= 1.0e300);
    x
}
fn any_state(k: u8) -> AccumulatorState {
    match k {
        0 => AccumulatorState::Count(kani::any()),
        1 => AccumulatorState::Sum(any_f64(), kani::any()),
        2 => AccumulatorState::SumInt(kani::any(), kani::any()),
        3 => AccumulatorState::Avg { sum: any_f64(), count: kani::any() },
        4 => AccumulatorState::Min(Some(ScalarValue::Int64(kani::any()))),
        5 => AccumulatorState::Max(Some(ScalarValue::Int64(kani::any()))),
        6 => AccumulatorState::Min(Some(ScalarValue::Float64(OrderedFloat(kani::any())))),
        7 => AccumulatorState::Max(Some(ScalarValue::Float64(OrderedFloat(kani::any())))),
        8 => AccumulatorState::Min(None),
        _ => AccumulatorState::Max(None),
    }
}

fn same_scalar(a: &Option<ScalarValue>, b: &Option<ScalarValue>) -> bool {
    match (a, b) {
        (None, None) => true,
        (Some(ScalarValue::Int64(x)), Some(ScalarValue::Int64(y))) => x == y,
        (Some(ScalarValue::Float64(x)), Some(ScalarValue::Float64(y))) => x.into_inner().to_bits() == y.into_inner().to_bits(),
        _ => false,
    }
}
/// bit-for-bit equality of two states
fn same_state(a: &AccumulatorState, b: &AccumulatorState) -> bool {
    match (a, b) {
        (AccumulatorState::Count(x), AccumulatorState::Count(y)) => x == y,
        (AccumulatorState::Sum(x, s), AccumulatorState::Sum(y, t)) => x.to_bits() == y.to_bits() && s == t,
        (AccumulatorState::SumInt(x, s), AccumulatorState::SumInt(y, t)) => x == y && s == t,
        (AccumulatorState::Avg { sum: x, count: c }, AccumulatorState::Avg { sum: y, count: d }) => x.to_bits() == y.to_bits() && c == d,
        (AccumulatorState::Min(x), AccumulatorState::Min(y)) => same_scalar(x, y),
        (AccumulatorState::Max(x), AccumulatorState::Max(y)) => same_scalar(x, y),
        _ => false,
    }
}


// One harness per (operation, variant): the variant is concrete so CBMC never
// has to carry the drop/clone glue of the other ScalarValue variants.

fn sql_func(k: u8) -> AggregateFunction {
    match k {
        0 => AggregateFunction::Count,
        1 | 2 => AggregateFunction::Sum,
        3 => AggregateFunction::Avg,
        4 | 6 | 8 => AggregateFunction::Min,
        _ => AggregateFunction::Max,
    }
}

// ------------------------------------------------------------ new: the empty group
macro_rules! new_harness {
    ($name:ident, $func:expr, $dt:expr, $is_count:expr) => {
        #[kani::proof]
        #[kani::unwind(1)]
        #[kani::stub(<crate::planner::logical_expr::ScalarValue as std::clone::Clone>::clone, stub_scalar_clone)]
        fn $name() {
            let func = $func;
            let dt = $dt;
            let s = AccumulatorState::new(&func, &dt);
            let out = s.finalize(&func);
            // SQL on an empty group: COUNT = 0, everything else NULL
            if $is_count {
                assert!(matches!(out, ScalarValue::Int64(0)));
            } else {
                assert!(matches!(out, ScalarValue::Null));
            }
            std::mem::forget((s, out, dt));
        }
    };
}
new_harness!(c21_m_new_count, AggregateFunction::Count, DataType::Int64, true);
new_harness!(c21_m_new_count_distinct, AggregateFunction::CountDistinct, DataType::Utf8, true);
new_harness!(c21_m_new_sum_int, AggregateFunction::Sum, DataType::Int64, false);
new_harness!(c21_m_new_sum_int32, AggregateFunction::Sum, DataType::Int32, false);
new_harness!(c21_m_new_sum_float, AggregateFunction::Sum, DataType::Float64, false);
new_harness!(c21_m_new_avg, AggregateFunction::Avg, DataType::Int64, false);
new_harness!(c21_m_new_min, AggregateFunction::Min, DataType::Utf8, false);
new_harness!(c21_m_new_max, AggregateFunction::Max, DataType::Date32, false);

#[kani::proof]
#[kani::unwind(1)]
fn c21_m_new_sum_variant_by_type() {
    let a = AccumulatorState::new(&AggregateFunction::Sum, &DataType::Int64);
    assert!(matches!(a, AccumulatorState::SumInt(0, false)));
    let b = AccumulatorState::new(&AggregateFunction::Sum, &DataType::Float64);
    assert!(matches!(b, AccumulatorState::Sum(x, false) if x == 0.0));
    std::mem::forget((a, b));
}

// ------------------------------------------------------------ NULL input changes nothing
macro_rules! null_noop {
    ($name:ident, $k:expr) => {
        #[kani::proof]
        #[kani::unwind(1)]
        #[kani::stub(<crate::planner::logical_expr::ScalarValue as std::clone::Clone>::clone, stub_scalar_clone)]
        fn $name() {
            let mut s = any_state($k);
            let before = unsafe { std::ptr::read(&s) }; // bitwise snapshot, never dropped
            s.update(&ScalarValue::Null);
            assert!(same_state(&s, &before));
            std::mem::forget((s, before));
        }
    };
}
null_noop!(c21_m_update_null_count, 0);
null_noop!(c21_m_update_null_sum, 1);
null_noop!(c21_m_update_null_sumint, 2);
null_noop!(c21_m_update_null_avg, 3);
null_noop!(c21_m_update_null_min, 4);
null_noop!(c21_m_update_null_max, 5);
null_noop!(c21_m_update_null_min_empty, 8);
null_noop!(c21_m_update_null_max_empty, 9);

// ------------------------------------------------------------ one non-NULL i64 row
fn check_i64_step(before: &AccumulatorState, s: &AccumulatorState, v: i64) {
    match (before, s) {
        (AccumulatorState::Count(c), AccumulatorState::Count(d)) => assert!(*d == *c + 1),
        (AccumulatorState::Sum(x, _), AccumulatorState::Sum(y, seen)) => {
            assert!(*seen);
            assert!(y.to_bits() == (*x + v as f64).to_bits());
        }
        (AccumulatorState::SumInt(x, _), AccumulatorState::SumInt(y, seen)) => {
            assert!(*seen);
            assert!(*y == *x + v);
        }
        (AccumulatorState::Avg { sum: x, count: c }, AccumulatorState::Avg { sum: y, count: d }) => {
            assert!(*d == *c + 1);
            assert!(y.to_bits() == (*x + v as f64).to_bits());
        }
        (AccumulatorState::Min(o), AccumulatorState::Min(n)) => match (o, n) {
            (None, Some(ScalarValue::Int64(m))) => assert!(*m == v),
            (Some(ScalarValue::Int64(c)), Some(ScalarValue::Int64(m))) => assert!(*m == (*c).min(v)),
            _ => assert!(false),
        },
        (AccumulatorState::Max(o), AccumulatorState::Max(n)) => match (o, n) {
            (None, Some(ScalarValue::Int64(m))) => assert!(*m == v),
            (Some(ScalarValue::Int64(c)), Some(ScalarValue::Int64(m))) => assert!(*m == (*c).max(v)),
            _ => assert!(false),
        },
        _ => assert!(false), // the variant never changes
    }
}
fn assume_no_overflow_i64(before: &AccumulatorState, v: i64) {
    // engine-defined overflow is excluded by the property
    match before {
        AccumulatorState::Count(c) => kani::assume(*c < i64::MAX),
        AccumulatorState::SumInt(x, _) => kani::assume(x.checked_add(v).is_some()),
        AccumulatorState::Avg { count, .. } => kani::assume(*count < i64::MAX),
        _ => {}
    }
}
macro_rules! i64_step {
    ($fast:ident, $slow:ident, $k:expr) => {
        #[kani::proof]
        #[kani::unwind(1)]
        #[kani::stub(<crate::planner::logical_expr::ScalarValue as std::clone::Clone>::clone, stub_scalar_clone)]
        fn $fast() {
            let mut s = any_state($k);
            let before = unsafe { std::ptr::read(&s) };
            let v: i64 = kani::any();
            assume_no_overflow_i64(&before, v);
            s.update_i64(v);
            check_i64_step(&before, &s, v);
            std::mem::forget((s, before));
        }
        /// the ScalarValue slow path agrees with the fast path
        #[kani::proof]
        #[kani::unwind(1)]
        #[kani::stub(<crate::planner::logical_expr::ScalarValue as std::clone::Clone>::clone, stub_scalar_clone)]
        fn $slow() {
            let mut s = any_state($k);
            let before = unsafe { std::ptr::read(&s) };
            let v: i64 = kani::any();
            assume_no_overflow_i64(&before, v);
            let sv = ScalarValue::Int64(v);
            s.update(&sv);
            check_i64_step(&before, &s, v);
            std::mem::forget((s, before, sv));
        }
    };
}
i64_step!(c21_m_update_i64_count, c21_m_update_scalar_i64_count, 0);
i64_step!(c21_m_update_i64_sum, c21_m_update_scalar_i64_sum, 1);
i64_step!(c21_m_update_i64_sumint, c21_m_update_scalar_i64_sumint, 2);
i64_step!(c21_m_update_i64_avg, c21_m_update_scalar_i64_avg, 3);
i64_step!(c21_m_update_i64_min, c21_m_update_scalar_i64_min, 4);
i64_step!(c21_m_update_i64_max, c21_m_update_scalar_i64_max, 5);
i64_step!(c21_m_update_i64_min_empty, c21_m_update_scalar_i64_min_empty, 8);
i64_step!(c21_m_update_i64_max_empty, c21_m_update_scalar_i64_max_empty, 9);

// ------------------------------------------------------------ one non-NULL f64 row
fn check_f64_step(before: &AccumulatorState, s: &AccumulatorState, v: f64) {
    match (before, s) {
        (AccumulatorState::Count(c), AccumulatorState::Count(d)) => assert!(*d == *c + 1),
        (AccumulatorState::Sum(x, _), AccumulatorState::Sum(y, seen)) => {
            assert!(*seen);
            assert!(y.to_bits() == (*x + v).to_bits());
        }
        (AccumulatorState::Avg { sum: x, count: c }, AccumulatorState::Avg { sum: y, count: d }) => {
            assert!(*d == *c + 1);
            assert!(y.to_bits() == (*x + v).to_bits());
        }
        (AccumulatorState::Min(o), AccumulatorState::Min(n)) => match (o, n) {
            (None, Some(ScalarValue::Float64(m))) => assert!(m.into_inner().to_bits() == v.to_bits()),
            (Some(ScalarValue::Float64(c)), Some(ScalarValue::Float64(m))) => {
                // never back to "empty"; the kept value is one of the two and not above either (non-NaN)
                let (c, m) = (c.into_inner(), m.into_inner());
                assert!(m.to_bits() == c.to_bits() || m.to_bits() == v.to_bits());
                if !c.is_nan() && !v.is_nan() {
                    assert!(m <= c && m <= v);
                }
            }
            _ => assert!(false),
        },
        (AccumulatorState::Max(o), AccumulatorState::Max(n)) => match (o, n) {
            (None, Some(ScalarValue::Float64(m))) => assert!(m.into_inner().to_bits() == v.to_bits()),
            (Some(ScalarValue::Float64(c)), Some(ScalarValue::Float64(m))) => {
                let (c, m) = (c.into_inner(), m.into_inner());
                assert!(m.to_bits() == c.to_bits() || m.to_bits() == v.to_bits());
                if !c.is_nan() && !v.is_nan() {
                    assert!(m >= c && m >= v);
                }
            }
            _ => assert!(false),
        },
        _ => assert!(false),
    }
}
macro_rules! f64_step {
    ($fast:ident, $slow:ident, $k:expr) => {
        #[kani::proof]
        #[kani::unwind(1)]
        #[kani::stub(<crate::planner::logical_expr::ScalarValue as std::clone::Clone>::clone, stub_scalar_clone)]
        fn $fast() {
            let mut s = any_state($k);
            let before = unsafe { std::ptr::read(&s) };
            let v: f64 = any_f64();
            assume_no_overflow_i64(&before, 0);
            s.update_f64(v);
            check_f64_step(&before, &s, v);
            std::mem::forget((s, before));
        }
        #[kani::proof]
        #[kani::unwind(1)]
        #[kani::stub(<crate::planner::logical_expr::ScalarValue as std::clone::Clone>::clone, stub_scalar_clone)]
        fn $slow() {
            let mut s = any_state($k);
            let before = unsafe { std::ptr::read(&s) };
            let v: f64 = any_f64();
            assume_no_overflow_i64(&before, 0);
            let sv = ScalarValue::Float64(OrderedFloat(v));
            s.update(&sv);
            check_f64_step(&before, &s, v);
            std::mem::forget((s, before, sv));
        }
    };
}
f64_step!(c21_m_update_f64_count, c21_m_update_scalar_f64_count, 0);
f64_step!(c21_m_update_f64_sum, c21_m_update_scalar_f64_sum, 1);
f64_step!(c21_m_update_f64_avg, c21_m_update_scalar_f64_avg, 3);
f64_step!(c21_m_update_f64_min, c21_m_update_scalar_f64_min, 6);
f64_step!(c21_m_update_f64_max, c21_m_update_scalar_f64_max, 7);
f64_step!(c21_m_update_f64_min_empty, c21_m_update_scalar_f64_min_empty, 8);
f64_step!(c21_m_update_f64_max_empty, c21_m_update_scalar_f64_max_empty, 9);

macro_rules! count_step {
    ($name:ident, $k:expr) => {
        #[kani::proof]
        #[kani::unwind(1)]
        #[kani::stub(<crate::planner::logical_expr::ScalarValue as std::clone::Clone>::clone, stub_scalar_clone)]
        fn $name() {
            let mut s = any_state($k);
            let before = unsafe { std::ptr::read(&s) };
            assume_no_overflow_i64(&before, 0);
            s.update_count();
            match (&before, &s) {
                (AccumulatorState::Count(c), AccumulatorState::Count(d)) => assert!(*d == *c + 1),
                _ => assert!(same_state(&s, &before)),
            }
            std::mem::forget((s, before));
        }
    };
}
count_step!(c21_m_update_count_count, 0);
count_step!(c21_m_update_count_sumint, 2);
count_step!(c21_m_update_count_min, 4);

// ------------------------------------------------------------ merge: a (+) b
fn opt_min_i64(a: Option<i64>, b: Option<i64>) -> Option<i64> {
    match (a, b) {
        (None, x) | (x, None) => x,
        (Some(x), Some(y)) => Some(x.min(y)),
    }
}
fn opt_max_i64(a: Option<i64>, b: Option<i64>) -> Option<i64> {
    match (a, b) {
        (None, x) | (x, None) => x,
        (Some(x), Some(y)) => Some(x.max(y)),
    }
}
fn as_i64(o: &Option<ScalarValue>) -> Option<i64> {
    match o {
        Some(ScalarValue::Int64(v)) => Some(*v),
        _ => None,
    }
}
macro_rules! merge_step {
    ($name:ident, $k:expr) => {
        merge_step!($name, $k, $k);
    };
    ($name:ident, $k:expr, $j:expr) => {
        #[kani::proof]
        #[kani::unwind(1)]
        #[kani::stub(<crate::planner::logical_expr::ScalarValue as std::clone::Clone>::clone, stub_scalar_clone)]
        fn $name() {
            let mut a = any_state($k);
            let b = any_state($j);
            let a0 = unsafe { std::ptr::read(&a) };
            match (&a0, &b) {
                (AccumulatorState::Count(x), AccumulatorState::Count(y)) => kani::assume(x.checked_add(*y).is_some()),
                (AccumulatorState::SumInt(x, _), AccumulatorState::SumInt(y, _)) => kani::assume(x.checked_add(*y).is_some()),
                (AccumulatorState::Avg { count: x, .. }, AccumulatorState::Avg { count: y, .. }) => kani::assume(x.checked_add(*y).is_some()),
                _ => {}
            }
            a.merge(&b);
            match (&a0, &b, &a) {
                (AccumulatorState::Count(x), AccumulatorState::Count(y), AccumulatorState::Count(z)) => assert!(*z == *x + *y),
                (AccumulatorState::Sum(x, s), AccumulatorState::Sum(y, t), AccumulatorState::Sum(z, u)) => {
                    assert!(z.to_bits() == (*x + *y).to_bits());
                    assert!(*u == (*s || *t)); // non-empty iff either side was
                }
                (AccumulatorState::SumInt(x, s), AccumulatorState::SumInt(y, t), AccumulatorState::SumInt(z, u)) => {
                    assert!(*z == *x + *y);
                    assert!(*u == (*s || *t));
                }
                (AccumulatorState::Avg { sum: x, count: c }, AccumulatorState::Avg { sum: y, count: d }, AccumulatorState::Avg { sum: z, count: e }) => {
                    assert!(z.to_bits() == (*x + *y).to_bits());
                    assert!(*e == *c + *d);
                }
                (AccumulatorState::Min(x), AccumulatorState::Min(y), AccumulatorState::Min(z)) => {
                    assert!(as_i64(z) == opt_min_i64(as_i64(x), as_i64(y)));
                    assert!(z.is_some() == (x.is_some() || y.is_some()));
                }
                (AccumulatorState::Max(x), AccumulatorState::Max(y), AccumulatorState::Max(z)) => {
                    assert!(as_i64(z) == opt_max_i64(as_i64(x), as_i64(y)));
                    assert!(z.is_some() == (x.is_some() || y.is_some()));
                }
                _ => assert!(false),
            }
            std::mem::forget((a, b, a0));
        }
    };
}
merge_step!(c21_m_merge_count, 0);
merge_step!(c21_m_merge_sum, 1);
merge_step!(c21_m_merge_sumint, 2);
merge_step!(c21_m_merge_avg, 3);
merge_step!(c21_m_merge_min, 4);
merge_step!(c21_m_merge_max, 5);
merge_step!(c21_m_merge_min_empty_left, 8, 4);
merge_step!(c21_m_merge_min_empty_right, 4, 8);
merge_step!(c21_m_merge_min_empty_both, 8, 8);
merge_step!(c21_m_merge_max_empty_left, 9, 5);
merge_step!(c21_m_merge_max_empty_right, 5, 9);
merge_step!(c21_m_merge_max_empty_both, 9, 9);

/// merging states of different aggregates leaves the left one untouched
macro_rules! merge_mismatch {
    ($name:ident, $k:expr, $j:expr) => {
        #[kani::proof]
        #[kani::unwind(1)]
        #[kani::stub(<crate::planner::logical_expr::ScalarValue as std::clone::Clone>::clone, stub_scalar_clone)]
        fn $name() {
            let mut a = any_state($k);
            let b = any_state($j);
            let a0 = unsafe { std::ptr::read(&a) };
            a.merge(&b);
            assert!(same_state(&a, &a0));
            std::mem::forget((a, b, a0));
        }
    };
}
merge_mismatch!(c21_m_merge_mismatch_sum_count, 1, 0);
merge_mismatch!(c21_m_merge_mismatch_sumint_sum, 2, 1);
merge_mismatch!(c21_m_merge_mismatch_min_max, 4, 5);

// ------------------------------------------------------------ finalize: the SQL value
macro_rules! finalize_h {
    ($name:ident, $k:expr) => {
        #[kani::proof]
        #[kani::unwind(1)]
        #[kani::stub(<crate::planner::logical_expr::ScalarValue as std::clone::Clone>::clone, stub_scalar_clone)]
        fn $name() {
            let s = any_state($k);
            let func = sql_func($k);
            let out = s.finalize(&func);
            match &s {
                AccumulatorState::Count(c) => assert!(matches!(out, ScalarValue::Int64(v) if v == *c)),
                AccumulatorState::Sum(x, seen) => {
                    if *seen {
                        assert!(matches!(out, ScalarValue::Float64(v) if v.into_inner().to_bits() == x.to_bits()));
                    } else {
                        assert!(matches!(out, ScalarValue::Null));
                    }
                }
                AccumulatorState::SumInt(x, seen) => {
                    if *seen {
                        assert!(matches!(out, ScalarValue::Int64(v) if v == *x));
                    } else {
                        assert!(matches!(out, ScalarValue::Null));
                    }
                }
                AccumulatorState::Avg { sum, count } => {
                    if *count == 0 {
                        assert!(matches!(out, ScalarValue::Null));
                    } else {
                        assert!(matches!(out, ScalarValue::Float64(v) if v.into_inner().to_bits() == (*sum / *count as f64).to_bits()));
                    }
                }
                AccumulatorState::Min(o) | AccumulatorState::Max(o) => match o {
                    None => assert!(matches!(out, ScalarValue::Null)),
                    Some(ScalarValue::Int64(v)) => assert!(matches!(out, ScalarValue::Int64(w) if w == *v)),
                    Some(ScalarValue::Float64(v)) => assert!(matches!(out, ScalarValue::Float64(w) if w.into_inner().to_bits() == v.into_inner().to_bits())),
                    _ => assert!(false),
                },
                _ => assert!(false),
            }
            std::mem::forget((s, out));
        }
    };
}
finalize_h!(c21_m_finalize_count, 0);
finalize_h!(c21_m_finalize_sum, 1);
finalize_h!(c21_m_finalize_sumint, 2);
finalize_h!(c21_m_finalize_avg, 3);
/// AVG finalisation, NULL rule only (cheap; the quotient itself is c21_m_finalize_avg)
#[kani::proof]
#[kani::unwind(1)]
fn c21_m_finalize_avg_null_rule() {
    let s = any_state(3);
    let out = s.finalize(&AggregateFunction::Avg);
    if let AccumulatorState::Avg { count, .. } = &s {
        assert!(matches!(out, ScalarValue::Null) == (*count == 0));
        if *count != 0 {
            assert!(matches!(out, ScalarValue::Float64(_)));
        }
    }
    std::mem::forget((s, out));
}
finalize_h!(c21_m_finalize_min, 4);
finalize_h!(c21_m_finalize_max, 5);
finalize_h!(c21_m_finalize_min_f64, 6);
finalize_h!(c21_m_finalize_max_f64, 7);
finalize_h!(c21_m_finalize_min_empty, 8);
finalize_h!(c21_m_finalize_max_empty, 9);

// ================================================================ carrier instance
// MIN / MAX / FIRST hold an Option<ScalarValue>. With the real ScalarValue every assignment
// drags the drop/clone glue of String, Vec<ScalarValue> and Box<DataType> into CBMC
// (measured: ~9 min per harness). Here the SAME source text — the enum, the whole
// `impl AccumulatorState` block, compare_scalar_values, scalar_to_f64, scalar_to_i64, all
// copied verbatim on every run — is compiled against a carrier `ScalarValue` with the same
// variant names and Copy payloads (R6). Everything the methods decide is unchanged.
pub mod carr {
    use crate::planner::AggregateFunction;
    use arrow::datatypes::DataType;
    use ordered_float::OrderedFloat;

    #[derive(Clone, Copy, Debug, PartialEq)]
    pub enum ScalarValue {
        Null,
        Boolean(bool),
        Int8(i8),
        Int16(i16),
        Int32(i32),
        Int64(i64),
        UInt8(u8),
        UInt16(u16),
        UInt32(u32),
        UInt64(u64),
        Float32(OrderedFloat<f32>),
        Float64(OrderedFloat<f64>),
        Decimal128(i128),
        Utf8(u8),
        Date32(i32),
        Date64(i64),
        Timestamp(i64),
        Interval(i64),
        List(u8),
    }
    include!("/verif/kani/gen/kx_c21_enum.rs");
    include!("/verif/kani/gen/kx_c21_impl.rs");
    include!("/verif/kani/gen/kx_c21_compare.rs");
    include!("/verif/kani/gen/kx_c21_to_f64.rs");
    include!("/verif/kani/gen/kx_c21_to_i64.rs");

    /// an arbitrary non-NULL value of one of four column types (k picks the type)
    fn any_value(k: u8) -> ScalarValue {
        match k {
            0 => ScalarValue::Int64(kani::any()),
            1 => ScalarValue::Utf8(kani::any()),
            2 => ScalarValue::Date32(kani::any()),
            _ => {
                let f: f64 = kani::any();
                kani::assume(!f.is_nan());
                ScalarValue::Float64(OrderedFloat(f))
            }
        }
    }
    fn any_opt(k: u8) -> Option<ScalarValue> {
        if kani::any() { Some(any_value(k)) } else { None }
    }
    /// the column's order (same-typed values)
    fn le(a: &ScalarValue, b: &ScalarValue) -> bool {
        match (a, b) {
            (ScalarValue::Int64(x), ScalarValue::Int64(y)) => x <= y,
            (ScalarValue::Utf8(x), ScalarValue::Utf8(y)) => x <= y,
            (ScalarValue::Date32(x), ScalarValue::Date32(y)) => x <= y,
            (ScalarValue::Float64(x), ScalarValue::Float64(y)) => x.into_inner() <= y.into_inner(),
            _ => false,
        }
    }
    fn any_type() -> u8 {
        let k: u8 = kani::any();
        kani::assume(k < 4);
        k
    }

    /// merge of MIN / MAX partial states: empty is the identity, a value is never lost to an
    /// empty side, and the result is the smaller / larger of the two. All four column types,
    /// all combinations of empty / non-empty sides.
    #[kani::proof]
    #[kani::unwind(2)]
    fn c21_c_merge_min_max() {
        let k = any_type();
        let (x, y) = (any_opt(k), any_opt(k));
        let is_min: bool = kani::any();
        let mut a = if is_min { AccumulatorState::Min(x) } else { AccumulatorState::Max(x) };
        let b = if is_min { AccumulatorState::Min(y) } else { AccumulatorState::Max(y) };
        a.merge(&b);
        let z = match (&a, is_min) {
            (AccumulatorState::Min(z), true) => *z,
            (AccumulatorState::Max(z), false) => *z,
            _ => {
                assert!(false); // the variant never changes
                None
            }
        };
        assert!(z.is_some() == (x.is_some() || y.is_some()));
        match (x, y, z) {
            (Some(p), None, Some(r)) => assert!(r == p),
            (None, Some(q), Some(r)) => assert!(r == q),
            (Some(p), Some(q), Some(r)) => {
                assert!(r == p || r == q);
                if is_min {
                    assert!(le(&r, &p) && le(&r, &q));
                } else {
                    assert!(le(&p, &r) && le(&q, &r));
                }
            }
            (None, None, None) => {}
            _ => assert!(false),
        }
        kani::cover!(x.is_some() && y.is_none());
        kani::cover!(x.is_none() && y.is_some());
    }

    /// one row through the ScalarValue slow path: NULL changes nothing; a value makes the
    /// state non-empty and keeps the smaller / larger one.
    #[kani::proof]
    #[kani::unwind(2)]
    fn c21_c_update_min_max() {
        let k = any_type();
        let x = any_opt(k);
        let is_min: bool = kani::any();
        let mut a = if is_min { AccumulatorState::Min(x) } else { AccumulatorState::Max(x) };
        let v = if kani::any() { any_value(k) } else { ScalarValue::Null };
        a.update(&v);
        let z = match (&a, is_min) {
            (AccumulatorState::Min(z), true) => *z,
            (AccumulatorState::Max(z), false) => *z,
            _ => {
                assert!(false);
                None
            }
        };
        if v == ScalarValue::Null {
            assert!(z == x);
        } else {
            assert!(z.is_some());
            let r = z.unwrap();
            match x {
                None => assert!(r == v),
                Some(p) => {
                    assert!(r == p || r == v);
                    if is_min {
                        assert!(le(&r, &p) && le(&r, &v));
                    } else {
                        assert!(le(&p, &r) && le(&v, &r));
                    }
                }
            }
        }
        kani::cover!(x.is_some() && v != ScalarValue::Null);
    }

    /// the typed fast paths agree: update_i64 / update_f64 on MIN / MAX
    #[kani::proof]
    #[kani::unwind(2)]
    fn c21_c_update_fast_min_max() {
        let is_min: bool = kani::any();
        if kani::any() {
            let x = any_opt(0);
            let mut a = if is_min { AccumulatorState::Min(x) } else { AccumulatorState::Max(x) };
            let v: i64 = kani::any();
            a.update_i64(v);
            let z = match &a {
                AccumulatorState::Min(z) | AccumulatorState::Max(z) => *z,
                _ => None,
            };
            let want = match x {
                Some(ScalarValue::Int64(p)) => if is_min { p.min(v) } else { p.max(v) },
                _ => v,
            };
            assert!(z == Some(ScalarValue::Int64(want)));
        } else {
            let x = any_opt(3);
            let mut a = if is_min { AccumulatorState::Min(x) } else { AccumulatorState::Max(x) };
            let v: f64 = kani::any();
            kani::assume(!v.is_nan());
            a.update_f64(v);
            let z = match &a {
                AccumulatorState::Min(z) | AccumulatorState::Max(z) => *z,
                _ => None,
            };
            let want = match x {
                Some(ScalarValue::Float64(p)) => {
                    let p = p.into_inner();
                    if is_min { if v < p { v } else { p } } else if v > p { v } else { p }
                }
                _ => v,
            };
            assert!(matches!(z, Some(ScalarValue::Float64(r)) if r.into_inner() == want));
        }
    }

    /// finalize: MIN / MAX are NULL exactly for the empty state, otherwise the held value;
    /// new() is the empty state.
    #[kani::proof]
    #[kani::unwind(2)]
    fn c21_c_finalize_min_max() {
        let k = any_type();
        let x = any_opt(k);
        let is_min: bool = kani::any();
        let a = if is_min { AccumulatorState::Min(x) } else { AccumulatorState::Max(x) };
        let f = if is_min { AggregateFunction::Min } else { AggregateFunction::Max };
        let out = a.finalize(&f);
        match x {
            None => assert!(out == ScalarValue::Null),
            Some(p) => assert!(out == p),
        }
        let fresh = AccumulatorState::new(&f, &DataType::Int64);
        assert!(fresh.finalize(&f) == ScalarValue::Null);
    }
}

include!("/verif/kani/gen/playback_physical_morsel_agg.rs");
