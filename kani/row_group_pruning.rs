// Contract harnesses for src/storage/row_group_pruning.rs (property C05).
// Compiled only by `cargo kani` as a child module of the real file, so every
// call below reaches the private functions of the working tree.
//
// Ghost model. A row group holds rows; for one column its Parquet statistics
// are (min, max, null_count). "x is consistent with the statistics" means
//   integers : min <= x <= max
//   doubles  : x is NaN (writers leave NaN out of min/max) or min <= x <= max (IEEE)
// `holds_*` is the comparison the *interpreter* evaluates for that row: exact
// integer comparison, Arrow's total order (ArrowNativeTypeOp) for doubles,
// byte order for strings.
// Soundness of skipping    : consistent(x) && holds(x op val)  ==>  might_match
// Soundness of filter drop : definitely_matches ==> null_count == 0 && for all consistent x: holds
#![allow(dead_code, unused_imports, unused_variables)]
use super::*;
use arrow::array::ArrowNativeTypeOp;
use ordered_float::OrderedFloat;

// ---------------------------------------------------------------- spec functions
pub fn is_cmp(op: BinaryOp) -> bool {
    matches!(
        op,
        BinaryOp::Eq | BinaryOp::NotEq | BinaryOp::Lt | BinaryOp::LtEq | BinaryOp::Gt | BinaryOp::GtEq
    )
}

fn any_cmp() -> BinaryOp {
    let k: u8 = kani::any();
    kani::assume(k < 6);
    match k {
        0 => BinaryOp::Eq,
        1 => BinaryOp::NotEq,
        2 => BinaryOp::Lt,
        3 => BinaryOp::LtEq,
        4 => BinaryOp::Gt,
        _ => BinaryOp::GtEq,
    }
}

fn any_op() -> BinaryOp {
    let k: u8 = kani::any();
    kani::assume(k < 10);
    match k {
        0 => BinaryOp::Eq,
        1 => BinaryOp::NotEq,
        2 => BinaryOp::Lt,
        3 => BinaryOp::LtEq,
        4 => BinaryOp::Gt,
        5 => BinaryOp::GtEq,
        6 => BinaryOp::Add,
        7 => BinaryOp::Like,
        8 => BinaryOp::Modulo,
        _ => BinaryOp::StringConcat,
    }
}

/// `a op b` on exact integers.
fn holds_i64(op: BinaryOp, a: i64, b: i64) -> bool {
    match op {
        BinaryOp::Eq => a == b,
        BinaryOp::NotEq => a != b,
        BinaryOp::Lt => a < b,
        BinaryOp::LtEq => a <= b,
        BinaryOp::Gt => a > b,
        BinaryOp::GtEq => a >= b,
        _ => true,
    }
}

/// `a op b` in the interpreter's order for doubles (Arrow cmp kernels = total order).
fn holds_f64(op: BinaryOp, a: f64, b: f64) -> bool {
    match op {
        BinaryOp::Eq => a.is_eq(b),
        BinaryOp::NotEq => a.is_ne(b),
        BinaryOp::Lt => a.is_lt(b),
        BinaryOp::LtEq => a.is_le(b),
        BinaryOp::Gt => a.is_gt(b),
        BinaryOp::GtEq => a.is_ge(b),
        _ => true,
    }
}

fn holds_bytes(op: BinaryOp, a: &[u8], b: &[u8]) -> bool {
    match op {
        BinaryOp::Eq => a == b,
        BinaryOp::NotEq => a != b,
        BinaryOp::Lt => a < b,
        BinaryOp::LtEq => a <= b,
        BinaryOp::Gt => a > b,
        BinaryOp::GtEq => a >= b,
        _ => true,
    }
}

/// Closed form of "exists x in [min,max] with x op val" (sound direction proved
/// by `c05_l1_lemma_closed_form_*`). Any non-comparison operator may hold.
pub fn may_hold_i64(op: BinaryOp, val: i64, min: i64, max: i64) -> bool {
    match op {
        BinaryOp::Eq => min <= val && val <= max,
        BinaryOp::NotEq => !(min == val && max == val),
        BinaryOp::Lt => min < val,
        BinaryOp::LtEq => min <= val,
        BinaryOp::Gt => max > val,
        BinaryOp::GtEq => max >= val,
        _ => true,
    }
}
pub fn may_hold_i32(op: BinaryOp, val: i32, min: i32, max: i32) -> bool {
    may_hold_i64(op, val as i64, min as i64, max as i64)
}
/// For doubles the closed form is stated for the IEEE order on non-NaN values
/// with zeros identified (the part of the domain where IEEE and total order
/// agree); the NaN / signed-zero part is the known finding D6.
pub fn may_hold_f64(op: BinaryOp, val: f64, min: f64, max: f64) -> bool {
    match op {
        BinaryOp::Eq => min <= val && val <= max,
        BinaryOp::NotEq => !(min == val && max == val),
        BinaryOp::Lt => min < val,
        BinaryOp::LtEq => min <= val,
        BinaryOp::Gt => max > val,
        BinaryOp::GtEq => max >= val,
        _ => true,
    }
}

fn consistent_f64(x: f64, min: f64, max: f64) -> bool {
    x.is_nan() || (min <= x && x <= max)
}
/// Known finding D6: NaN rows / NaN literal / zeros of either sign.
fn d6_class(x: f64, val: f64) -> bool {
    x.is_nan() || val.is_nan() || (x == 0.0 && val == 0.0)
}

// ---------------------------------------------------------------- L1 leaves
#[kani::proof]
fn c05_l1_lemma_closed_form_i64() {
    let (val, min, max, x): (i64, i64, i64, i64) = (kani::any(), kani::any(), kani::any(), kani::any());
    kani::assume(min <= x && x <= max);
    let op = any_cmp();
    if holds_i64(op, x, val) {
        assert!(may_hold_i64(op, val, min, max));
    }
    kani::cover!(holds_i64(op, x, val) && x != min && x != max);
}

#[kani::proof]
fn c05_l1_lemma_closed_form_f64() {
    let (val, min, max, x): (f64, f64, f64, f64) = (kani::any(), kani::any(), kani::any(), kani::any());
    kani::assume(consistent_f64(x, min, max));
    kani::assume(!d6_class(x, val));
    let op = any_cmp();
    if holds_f64(op, x, val) {
        assert!(may_hold_f64(op, val, min, max));
    }
    kani::cover!(holds_f64(op, x, val) && x != min && x != max);
}

#[kani::proof_for_contract(eval_range)]
fn c05_l1_eval_range_contract() {
    let op = any_op();
    let r = eval_range(op, kani::any(), kani::any(), kani::any());
    kani::cover!(r);
    kani::cover!(!r);
}

#[kani::proof_for_contract(eval_range_i32)]
fn c05_l1_eval_range_i32_contract() {
    let op = any_op();
    let r = eval_range_i32(op, kani::any(), kani::any(), kani::any());
    kani::cover!(r);
    kani::cover!(!r);
}

#[kani::proof_for_contract(eval_range_f64)]
fn c05_l1_eval_range_f64_contract() {
    let op = any_op();
    let r = eval_range_f64(op, kani::any(), kani::any(), kani::any());
    kani::cover!(r);
    kani::cover!(!r);
}

fn ascii_str<const N: usize>() -> ([u8; N], usize) {
    let b: [u8; N] = kani::any();
    let n: usize = kani::any();
    kani::assume(n <= N);
    let mut i = 0;
    while i < N {
        kani::assume(b[i] < 0x80);
        i += 1;
    }
    (b, n)
}

/// Strings: B(each of val/min/max/x <= 2 ASCII bytes).
#[kani::proof]
#[kani::unwind(4)]
fn c05_l1_eval_range_str_sound_b2() {
    let (vb, vn) = ascii_str::<2>();
    let (nb, nn) = ascii_str::<2>();
    let (mb, mn) = ascii_str::<2>();
    let (xb, xn) = ascii_str::<2>();
    let val = std::str::from_utf8(&vb[..vn]).unwrap();
    let min = std::str::from_utf8(&nb[..nn]).unwrap();
    let max = std::str::from_utf8(&mb[..mn]).unwrap();
    let x = &xb[..xn];
    kani::assume(min.as_bytes() <= x && x <= max.as_bytes());
    let op = any_cmp();
    let r = eval_range_str(op, val, min, max);
    if holds_bytes(op, x, val.as_bytes()) {
        assert!(r);
    }
    kani::cover!(r && xn == 2 && vn == 2);
    kani::cover!(!r);
}

// ---------------------------------------------------------------- L2 typed statistics
fn opt_i64() -> Option<i64> {
    if kani::any() { Some(kani::any()) } else { None }
}
fn opt_i32() -> Option<i32> {
    if kani::any() { Some(kani::any()) } else { None }
}
fn opt_f64() -> Option<f64> {
    if kani::any() { Some(kani::any()) } else { None }
}
fn opt_f32() -> Option<f32> {
    if kani::any() { Some(kani::any()) } else { None }
}
fn opt_u64() -> Option<u64> {
    if kani::any() { Some(kani::any()) } else { None }
}

fn within_i64(x: i64, min: Option<i64>, max: Option<i64>) -> bool {
    min.map_or(true, |m| m <= x) && max.map_or(true, |m| x <= m)
}
fn within_f64(x: f64, min: Option<f64>, max: Option<f64>) -> bool {
    x.is_nan() || (min.map_or(true, |m| m <= x) && max.map_or(true, |m| x <= m))
}

/// Int64 column (also Timestamp), Int64 literal; callee checked by contract only.
#[kani::proof]
#[kani::unwind(3)]
#[kani::stub_verified(eval_range)]
fn c05_l2_check_i64_stats_int64col() {
    let (min, max, nulls) = (opt_i64(), opt_i64(), opt_u64());
    let x: i64 = kani::any();
    let val: i64 = kani::any();
    kani::assume(within_i64(x, min, max));
    let op = any_cmp();
    let stats = ParquetStatistics::int64(min, max, None, nulls, false);
    let r = check_i64_stats(&stats, op, val);
    if holds_i64(op, x, val) {
        assert!(r);
    }
    kani::cover!(!r);
    kani::cover!(r && min.is_some() && max.is_some());
}

/// Int32/Date32 column, Int64 literal.
#[kani::proof]
#[kani::unwind(3)]
#[kani::stub_verified(eval_range)]
fn c05_l2_check_i64_stats_int32col() {
    let (min, max, nulls) = (opt_i32(), opt_i32(), opt_u64());
    let x: i32 = kani::any();
    let val: i64 = kani::any();
    kani::assume(within_i64(x as i64, min.map(|v| v as i64), max.map(|v| v as i64)));
    let op = any_cmp();
    let stats = ParquetStatistics::int32(min, max, None, nulls, false);
    let r = check_i64_stats(&stats, op, val);
    if holds_i64(op, x as i64, val) {
        assert!(r);
    }
    kani::cover!(!r);
}

/// Int32/Date32 column, Int32/Date32 literal.
#[kani::proof]
#[kani::unwind(3)]
#[kani::stub_verified(eval_range_i32)]
fn c05_l2_check_i32_stats_int32col() {
    let (min, max, nulls) = (opt_i32(), opt_i32(), opt_u64());
    let x: i32 = kani::any();
    let val: i32 = kani::any();
    kani::assume(within_i64(x as i64, min.map(|v| v as i64), max.map(|v| v as i64)));
    let op = any_cmp();
    let stats = ParquetStatistics::int32(min, max, None, nulls, false);
    let r = check_i32_stats(&stats, op, val);
    if holds_i64(op, x as i64, val as i64) {
        assert!(r);
    }
    kani::cover!(!r);
}

/// Int64 column, Int32/Date32 literal (D5: statistics truncated with `as i32`).
#[kani::proof]
#[kani::unwind(3)]
#[kani::stub_verified(eval_range_i32)]
#[kani::stub_verified(eval_range)]
fn c05_l2_check_i32_stats_int64col() {
    let (min, max, nulls) = (opt_i64(), opt_i64(), opt_u64());
    let x: i64 = kani::any();
    let val: i32 = kani::any();
    kani::assume(within_i64(x, min, max));
    let op = any_cmp();
    let stats = ParquetStatistics::int64(min, max, None, nulls, false);
    let r = check_i32_stats(&stats, op, val);
    if holds_i64(op, x, val as i64) {
        assert!(r);
    }
    kani::cover!(!r);
}

/// Double column, f64 literal — all inputs (expected to expose D6).
#[kani::proof]
#[kani::unwind(3)]
#[kani::stub_verified(eval_range_f64)]
fn c05_l2_check_f64_stats_double() {
    let (min, max, nulls) = (opt_f64(), opt_f64(), opt_u64());
    let x: f64 = kani::any();
    let val: f64 = kani::any();
    kani::assume(within_f64(x, min, max));
    let op = any_cmp();
    let stats = ParquetStatistics::double(min, max, None, nulls, false);
    let r = check_f64_stats(&stats, op, val);
    if holds_f64(op, x, val) {
        assert!(r);
    }
}

/// Same, outside the known-finding class D6.
#[kani::proof]
#[kani::unwind(3)]
#[kani::stub_verified(eval_range_f64)]
fn c05_l2_check_f64_stats_double__excluding_known() {
    let (min, max, nulls) = (opt_f64(), opt_f64(), opt_u64());
    let x: f64 = kani::any();
    let val: f64 = kani::any();
    kani::assume(within_f64(x, min, max));
    kani::assume(!d6_class(x, val));
    let op = any_cmp();
    let stats = ParquetStatistics::double(min, max, None, nulls, false);
    let r = check_f64_stats(&stats, op, val);
    if holds_f64(op, x, val) {
        assert!(r);
    }
    kani::cover!(!r);
    kani::cover!(r && min.is_some() && max.is_some());
}

/// Float column (f32 values widened), f64 literal, outside D6.
#[kani::proof]
#[kani::unwind(3)]
#[kani::stub_verified(eval_range_f64)]
fn c05_l2_check_f64_stats_float__excluding_known() {
    let (min, max, nulls) = (opt_f32(), opt_f32(), opt_u64());
    let x: f32 = kani::any();
    let val: f64 = kani::any();
    kani::assume(within_f64(x as f64, min.map(|v| v as f64), max.map(|v| v as f64)));
    kani::assume(!d6_class(x as f64, val));
    let op = any_cmp();
    let stats = ParquetStatistics::float(min, max, None, nulls, false);
    let r = check_f64_stats(&stats, op, val);
    if holds_f64(op, x as f64, val) {
        assert!(r);
    }
    kani::cover!(!r);
}

/// A literal type that does not match the statistics type is never pruned on.
#[kani::proof]
#[kani::unwind(3)]
fn c05_l2_mismatched_stats_conservative() {
    let op = any_cmp();
    let d = ParquetStatistics::double(opt_f64(), opt_f64(), None, None, false);
    let i = ParquetStatistics::int64(opt_i64(), opt_i64(), None, None, false);
    let b = ParquetStatistics::boolean(None, None, None, None, false);
    assert!(check_i64_stats(&d, op, kani::any()));
    assert!(check_i32_stats(&d, op, kani::any()));
    assert!(check_f64_stats(&i, op, kani::any()));
    assert!(check_i64_stats(&b, op, kani::any()));
    assert!(check_utf8_stats(&i, op, "a"));
}

#[kani::proof]
fn c05_l4_flip_op() {
    let op = any_op();
    let f = flip_op(&op);
    let (a, b): (i64, i64) = (kani::any(), kani::any());
    // `a op b` is `b flip(op) a`
    if is_cmp(op) {
        assert!(is_cmp(f));
        assert!(holds_i64(op, a, b) == holds_i64(f, b, a));
    } else {
        assert!(f == op);
    }
}

// ---------------------------------------------------------------- L3 / L4 regions (lane KX)
include!("/verif/kani/gen/kx_definite_comparison.rs");
include!("/verif/kani/gen/kx_check_comparison.rs");

fn any_int_stats() -> (ParquetStatistics, Option<i64>, Option<i64>, Option<u64>, bool) {
    let nulls = opt_u64();
    if kani::any() {
        let (min, max) = (opt_i64(), opt_i64());
        (ParquetStatistics::int64(min, max, None, nulls, false), min, max, nulls, true)
    } else {
        let (min, max) = (opt_i32(), opt_i32());
        (
            ParquetStatistics::int32(min, max, None, nulls, false),
            min.map(|v| v as i64),
            max.map(|v| v as i64),
            nulls,
            false,
        )
    }
}

fn any_int_literal() -> (ScalarValue, i64) {
    let k: u8 = kani::any();
    kani::assume(k < 4);
    match k {
        0 => {
            let v: i64 = kani::any();
            (ScalarValue::Int64(v), v)
        }
        1 => {
            let v: i32 = kani::any();
            (ScalarValue::Int32(v), v as i64)
        }
        2 => {
            let v: i32 = kani::any();
            (ScalarValue::Date32(v), v as i64)
        }
        _ => {
            let v: i64 = kani::any();
            (ScalarValue::Timestamp(v), v)
        }
    }
}

/// definite_comparison, integer statistics vs integer literal: a `true` answer
/// must mean no NULLs and the comparison holds for every value in [min, max].
#[kani::proof]
#[kani::unwind(3)]
fn c05_l3_definite_int_int() {
    let (stats, min, max, nulls, is64) = any_int_stats();
    let (lit, val) = any_int_literal();
    let x: i64 = kani::any();
    kani::assume(within_i64(x, min, max));
    if !is64 {
        kani::assume(x >= i32::MIN as i64 && x <= i32::MAX as i64);
    }
    let op = any_op();
    let flipped: bool = kani::any();
    let r = kx_definite_comparison(&stats, &op, &lit, flipped);
    if r {
        assert!(nulls == Some(0));
        assert!(is_cmp(op));
        if flipped {
            assert!(holds_i64(op, val, x));
        } else {
            assert!(holds_i64(op, x, val));
        }
    }
    kani::cover!(r && flipped);
    kani::cover!(r && !flipped && min != max);
    std::mem::forget(lit);
}

/// definite_comparison, Double statistics vs Float64 literal, outside D6.
#[kani::proof]
#[kani::unwind(3)]
fn c05_l3_definite_f64_f64__excluding_known() {
    let (min, max, nulls) = (opt_f64(), opt_f64(), opt_u64());
    let stats = ParquetStatistics::double(min, max, None, nulls, false);
    let val: f64 = kani::any();
    let lit = ScalarValue::Float64(OrderedFloat(val));
    let x: f64 = kani::any();
    kani::assume(within_f64(x, min, max));
    kani::assume(!d6_class(x, val));
    let op = any_op();
    let flipped: bool = kani::any();
    let r = kx_definite_comparison(&stats, &op, &lit, flipped);
    if r {
        assert!(nulls == Some(0));
        assert!(is_cmp(op));
        if flipped {
            assert!(holds_f64(op, val, x));
        } else {
            assert!(holds_f64(op, x, val));
        }
    }
    kani::cover!(r && flipped);
    kani::cover!(r && !flipped && min != max);
    std::mem::forget(lit);
}

/// Same over all doubles (expected to expose D6).
#[kani::proof]
#[kani::unwind(3)]
fn c05_l3_definite_f64_f64() {
    let (min, max, nulls) = (opt_f64(), opt_f64(), opt_u64());
    let stats = ParquetStatistics::double(min, max, None, nulls, false);
    let val: f64 = kani::any();
    let lit = ScalarValue::Float64(OrderedFloat(val));
    let x: f64 = kani::any();
    kani::assume(within_f64(x, min, max));
    let op = any_op();
    let flipped: bool = kani::any();
    let r = kx_definite_comparison(&stats, &op, &lit, flipped);
    if r {
        if flipped {
            assert!(holds_f64(op, val, x));
        } else {
            assert!(holds_f64(op, x, val));
        }
    }
    std::mem::forget(lit);
}

/// Mixed: integer statistics vs Float64 literal, and Double statistics vs
/// integer literal. The interpreter coerces the integer side to f64, so the
/// row-level comparison is on `as f64` values (rounding is monotone).
#[kani::proof]
#[kani::unwind(3)]
fn c05_l3_definite_mixed__excluding_known() {
    let op = any_op();
    let flipped: bool = kani::any();
    let (xf, valf, r, nulls);
    if kani::any() {
        let (stats, min, max, n, is64) = any_int_stats();
        let val: f64 = kani::any();
        let lit = ScalarValue::Float64(OrderedFloat(val));
        let x: i64 = kani::any();
        kani::assume(within_i64(x, min, max));
        if !is64 {
            kani::assume(x >= i32::MIN as i64 && x <= i32::MAX as i64);
        }
        r = kx_definite_comparison(&stats, &op, &lit, flipped);
        xf = x as f64;
        valf = val;
        nulls = n;
        std::mem::forget(lit);
    } else {
        let (min, max, n) = (opt_f64(), opt_f64(), opt_u64());
        let stats = ParquetStatistics::double(min, max, None, n, false);
        let (lit, val) = any_int_literal();
        let x: f64 = kani::any();
        kani::assume(within_f64(x, min, max));
        r = kx_definite_comparison(&stats, &op, &lit, flipped);
        xf = x;
        valf = val as f64;
        nulls = n;
        std::mem::forget(lit);
    }
    kani::assume(!d6_class(xf, valf));
    if r {
        assert!(nulls == Some(0));
        if flipped {
            assert!(holds_f64(op, valf, xf));
        } else {
            assert!(holds_f64(op, xf, valf));
        }
    }
    kani::cover!(r);
}

/// Statistics / literal types the function does not handle never prove anything.
#[kani::proof]
#[kani::unwind(3)]
fn c05_l3_definite_unsupported_is_false() {
    let op = any_op();
    let flipped: bool = kani::any();
    let b = ParquetStatistics::boolean(Some(true), Some(true), None, Some(0), false);
    let lit = ScalarValue::Int64(kani::any());
    assert!(!kx_definite_comparison(&b, &op, &lit, flipped));
    let i = ParquetStatistics::int64(Some(1), Some(1), None, Some(0), false);
    let lit2 = ScalarValue::Boolean(kani::any());
    assert!(!kx_definite_comparison(&i, &op, &lit2, flipped));
    let lit3 = ScalarValue::Null;
    assert!(!kx_definite_comparison(&i, &op, &lit3, flipped));
    // no null count => never definite
    let i2 = ParquetStatistics::int64(Some(1), Some(1), None, None, false);
    assert!(!kx_definite_comparison(&i2, &BinaryOp::Eq, &ScalarValue::Int64(1), flipped));
    std::mem::forget((lit, lit2, lit3));
}

/// check_comparison dispatch, integer statistics vs integer literal.
#[kani::proof]
#[kani::unwind(3)]
fn c05_l4_check_comparison_int_int() {
    let (stats, min, max, _nulls, is64) = any_int_stats();
    let (lit, val) = any_int_literal();
    let x: i64 = kani::any();
    kani::assume(within_i64(x, min, max));
    if !is64 {
        kani::assume(x >= i32::MIN as i64 && x <= i32::MAX as i64);
    }
    let op = any_cmp();
    let flipped: bool = kani::any();
    let r = kx_check_comparison(&stats, &op, &lit, flipped);
    let h = if flipped { holds_i64(op, val, x) } else { holds_i64(op, x, val) };
    if h {
        assert!(r);
    }
    kani::cover!(!r && flipped);
    kani::cover!(!r && !flipped);
    std::mem::forget(lit);
}

/// check_comparison dispatch, Double/Float statistics vs Float64/Float32 literal, outside D6.
#[kani::proof]
#[kani::unwind(3)]
fn c05_l4_check_comparison_f64__excluding_known() {
    let nulls = opt_u64();
    let x: f64;
    let stats;
    if kani::any() {
        let (min, max) = (opt_f64(), opt_f64());
        x = kani::any();
        kani::assume(within_f64(x, min, max));
        stats = ParquetStatistics::double(min, max, None, nulls, false);
    } else {
        let (min, max) = (opt_f32(), opt_f32());
        let xs: f32 = kani::any();
        x = xs as f64;
        kani::assume(within_f64(x, min.map(|v| v as f64), max.map(|v| v as f64)));
        stats = ParquetStatistics::float(min, max, None, nulls, false);
    }
    let (lit, val) = if kani::any() {
        let v: f64 = kani::any();
        (ScalarValue::Float64(OrderedFloat(v)), v)
    } else {
        let v: f32 = kani::any();
        (ScalarValue::Float32(OrderedFloat(v)), v as f64)
    };
    kani::assume(!d6_class(x, val));
    let op = any_cmp();
    let flipped: bool = kani::any();
    let r = kx_check_comparison(&stats, &op, &lit, flipped);
    let h = if flipped { holds_f64(op, val, x) } else { holds_f64(op, x, val) };
    if h {
        assert!(r);
    }
    kani::cover!(!r && flipped);
    kani::cover!(!r && !flipped);
    std::mem::forget(lit);
}

/// Unsupported literal types and non-comparison operators are conservative.
#[kani::proof]
#[kani::unwind(3)]
fn c05_l4_check_comparison_conservative() {
    let (stats, _, _, _, _) = any_int_stats();
    let flipped: bool = kani::any();
    let op = any_op();
    let lit = ScalarValue::Boolean(kani::any());
    assert!(kx_check_comparison(&stats, &op, &lit, flipped));
    let lit = ScalarValue::Null;
    assert!(kx_check_comparison(&stats, &op, &lit, flipped));
    let (lit, _) = any_int_literal();
    if !is_cmp(op) {
        assert!(kx_check_comparison(&stats, &op, &lit, flipped));
    }
    std::mem::forget(lit);
}

// playback slot: the replay step writes Kani's concrete-playback test here
include!("/verif/kani/gen/playback_storage_row_group_pruning.rs");
