// Contract harnesses for src/storage/row_group_pruning.rs (property C05).
// Compiled only by `cargo kani` as a child module of the real file, so every
// call below reaches the private functions of the working tree.
//
// Ghost model. A row group holds rows; for one column its Parquet statistics
// are (min, max, null_count). "x is consistent with the statistics" means
//   integers : min <= x <= max
//   doubles  : x is NaN (writers leave NaN out of min/max) or min <= x <= max (IEEE)
// `holds_*` is the comparison the *interpreter* evaluates for that row: exact
// integer comparison, Arrow's total order (ArrowNativeTypeOp) for doubles,
// byte order for strings.
// Soundness of skipping    : consistent(x) && holds(x op val)  ==>  might_match
// Soundness of filter drop : definitely_matches ==> null_count == 0 && for all consistent x: holds
#![allow(dead_code, unused_imports, unused_variables)]
use super::*;
use arrow::array::ArrowNativeTypeOp;
use ordered_float::OrderedFloat;

// ---------------------------------------------------------------- spec functions
pub fn is_cmp(op: BinaryOp) -> bool {
    matches!(
        op,
        BinaryOp::Eq | BinaryOp::NotEq | BinaryOp::Lt | BinaryOp::LtEq | BinaryOp::Gt | BinaryOp::GtEq
    )
}

fn any_cmp() -> BinaryOp {
    let k: u8 = kani::any();
    kani::assume(k < 6);
    match k {
        0 => BinaryOp::Eq,
        1 => BinaryOp::NotEq,
        2 => BinaryOp::Lt,
        3 => BinaryOp::LtEq,
        4 => BinaryOp::Gt,
        _ => BinaryOp::GtEq,
    }
}

fn any_op() -> BinaryOp {
    let k: u8 = kani::any();
    kani::assume(k < 10);
    match k {
        0 => BinaryOp::Eq,
        1 => BinaryOp::NotEq,
        2 => BinaryOp::Lt,
        3 => BinaryOp::LtEq,
        4 => BinaryOp::Gt,
        5 => BinaryOp::GtEq,
        6 => BinaryOp::Add,
        7 => BinaryOp::Like,
        8 => BinaryOp::Modulo,
        _ => BinaryOp::StringConcat,
    }
}

/// `a op b` on exact integers.
fn holds_i64(op: BinaryOp, a: i64, b: i64) -> bool {
    match op {
        BinaryOp::Eq => a == b,
        BinaryOp::NotEq => a != b,
        BinaryOp::Lt => a < b,
        BinaryOp::LtEq => a <= b,
        BinaryOp::Gt => a > b,
        BinaryOp::GtEq => a >= b,
        _ => true,
    }
}

/// `a op b` in the interpreter's order for doubles (Arrow cmp kernels = total order).
fn holds_f64(op: BinaryOp, a: f64, b: f64) -> bool {
    match op {
        BinaryOp::Eq => a.is_eq(b),
        BinaryOp::NotEq => a.is_ne(b),
        BinaryOp::Lt => a.is_lt(b),
        BinaryOp::LtEq => a.is_le(b),
        BinaryOp::Gt => a.is_gt(b),
        BinaryOp::GtEq => a.is_ge(b),
        _ => true,
    }
}

fn holds_bytes(op: BinaryOp, a: &[u8], b: &[u8]) -> bool {
    match op {
        BinaryOp::Eq => a == b,
        BinaryOp::NotEq => a != b,
        BinaryOp::Lt => a < b,
        BinaryOp::LtEq => a <= b,
        BinaryOp::Gt => a > b,
        BinaryOp::GtEq => a >= b,
        _ => true,
    }
}

/// Closed form of "exists x in [min,max] with x op val" (sound direction proved
/// by `c05_l1_lemma_closed_form_*`). Any non-comparison operator may hold.
pub fn may_hold_i64(op: BinaryOp, val: i64, min: i64, max: i64) -> bool {
    match op {
        BinaryOp::Eq => min <= val && val <= max,
        BinaryOp::NotEq => !(min == val && max == val),
        BinaryOp::Lt => min < val,
        BinaryOp::LtEq => min <= val,
        BinaryOp::Gt => max > val,
        BinaryOp::GtEq => max >= val,
        _ => true,
    }
}
pub fn may_hold_i32(op: BinaryOp, val: i32, min: i32, max: i32) -> bool {
    may_hold_i64(op, val as i64, min as i64, max as i64)
}
/// For doubles the closed form is stated for the IEEE order on non-NaN values
/// with zeros identified (the part of the domain where IEEE and total order
/// agree); the NaN / signed-zero part is the known finding D6.
pub fn may_hold_f64(op: BinaryOp, val: f64, min: f64, max: f64) -> bool {
    match op {
        BinaryOp::Eq => min <= val && val <= max,
        BinaryOp::NotEq => !(min == val && max == val),
        BinaryOp::Lt => min < val,
        BinaryOp::LtEq => min <= val,
        BinaryOp::Gt => max > val,
        BinaryOp::GtEq => max >= val,
        _ => true,
    }
}

fn consistent_f64(x: f64, min: f64, max: f64) -> bool {
    x.is_nan() || (min <= x && x <= max)
}
/// Known finding D6: NaN rows / NaN literal / zeros of either sign.
fn d6_class(x: f64, val: f64) -> bool {
    x.is_nan() || val.is_nan() || (x == 0.0 && val == 0.0)
}

// ---------------------------------------------------------------- L1 leaves
#[kani::proof]
fn c05_l1_lemma_closed_form_i64() {
    let (val, min, max, x): (i64, i64, i64, i64) = (kani::any(), kani::any(), kani::any(), kani::any());
    kani::assume(min <= x && x <= max);
    let op = any_cmp();
    if holds_i64(op, x, val) {
        assert!(may_hold_i64(op, val, min, max));
    }
    kani::cover!(holds_i64(op, x, val) && x != min && x != max);
}

#[kani::proof]
fn c05_l1_lemma_closed_form_f64() {
    let (val, min, max, x): (f64, f64, f64, f64) = (kani::any(), kani::any(), kani::any(), kani::any());
    kani::assume(consistent_f64(x, min, max));
    kani::assume(!d6_class(x, val));
    let op = any_cmp();
    if holds_f64(op, x, val) {
        assert!(may_hold_f64(op, val, min, max));
    }
    kani::cover!(holds_f64(op, x, val) && x != min && x != max);
}

#[kani::proof_for_contract(eval_range)]
fn c05_l1_eval_range_contract() {
    let op = any_op();
    let r = eval_range(op, kani::any(), kani::any(), kani::any());
    kani::cover!(r);
    kani::cover!(!r);
}

#[kani::proof_for_contract(eval_range_i32)]
fn c05_l1_eval_range_i32_contract() {
    let op = any_op();
    let r = eval_range_i32(op, kani::any(), kani::any(), kani::any());
    kani::cover!(r);
    kani::cover!(!r);
}

#[kani::proof_for_contract(eval_range_f64)]
fn c05_l1_eval_range_f64_contract() {
    let op = any_op();
    let r = eval_range_f64(op, kani::any(), kani::any(), kani::any());
    kani::cover!(r);
    kani::cover!(!r);
}

fn ascii_str<const N: usize>() -> ([u8; N], usize) {
    let b: [u8; N] = kani::any();
    let n: usize = kani::any();
    kani::assume(n <= N);
    let mut i = 0;
    while i < N {
        kani::assume(b[i] < 0x80);
        i += 1;
    }
    (b, n)
}

/// Strings: B(each of val/min/max/x <= 2 ASCII bytes).
#[kani::proof]
#[kani::unwind(4)]
fn c05_l1_eval_range_str_sound_b2() {
    let (vb, vn) = ascii_str::<2>();
    let (nb, nn) = ascii_str::<2>();
    let (mb, mn) = ascii_str::<2>();
    let (xb, xn) = ascii_str::<2>();
    let val = std::str::from_utf8(&vb[..vn]).unwrap();
    let min = std::str::from_utf8(&nb[..nn]).unwrap();
    let max = std::str::from_utf8(&mb[..mn]).unwrap();
    let x = &xb[..xn];
    kani::assume(min.as_bytes() <= x && x <= max.as_bytes());
    let op = any_cmp();
    let r = eval_range_str(op, val, min, max);
    if holds_bytes(op, x, val.as_bytes()) {
        assert!(r);
    }
    kani::cover!(r && xn == 2 && vn == 2);
    kani::cover!(!r);
}

// ---------------------------------------------------------------- L2 typed statistics
fn opt_i64() -> Option<i64> {
    if kani::any() { Some(kani::any()) } else { None }
}
fn opt_i32() -> Option<i32> {
    if kani::any() { Some(kani::any()) } else { None }
}
fn opt_f64() -> Option<f64> {
    if kani::any() { Some(kani::any()) } else { None }
}
fn opt_f32() -> Option<f32> {
    if kani::any() { Some(kani::any()) } else { None }
}
fn opt_u64() -> Option<u64> {
    if kani::any() { Some(kani::any()) } else { None }
}

fn within_i64(x: i64, min: Option<i64>, max: Option<i64>) -> bool {
    min.map_or(true, |m| m <= x) && max.map_or(true, |m| x <= m)
}
fn within_f64(x: f64, min: Option<f64>, max: Option<f64>) -> bool {
    x.is_nan() || (min.map_or(true, |m| m <= x) && max.map_or(true, |m| x <= m))
}

/// Int64 column (also Timestamp), Int64 literal; callee checked by contract only.
#[kani::proof]
#[kani::unwind(3)]
#[kani::stub_verified(eval_range)]
fn c05_l2_check_i64_stats_int64col() {
    let (min, max, nulls) = (opt_i64(), opt_i64(), opt_u64());
    let x: i64 = kani::any();
    let val: i64 = kani::any();
    kani::assume(within_i64(x, min, max));
    let op = any_cmp();
    let stats = ParquetStatistics::int64(min, max, None, nulls, false);
    let r = check_i64_stats(&stats, op, val);
    if holds_i64(op, x, val) {
        assert!(r);
    }
    kani::cover!(!r);
    kani::cover!(r && min.is_some() && max.is_some());
}

/// Int32/Date32 column, Int64 literal.
#[kani::proof]
#[kani::unwind(3)]
#[kani::stub_verified(eval_range)]
fn c05_l2_check_i64_stats_int32col() {
    let (min, max, nulls) = (opt_i32(), opt_i32(), opt_u64());
    let x: i32 = kani::any();
    let val: i64 = kani::any();
    kani::assume(within_i64(x as i64, min.map(|v| v as i64), max.map(|v| v as i64)));
    let op = any_cmp();
    let stats = ParquetStatistics::int32(min, max, None, nulls, false);
    let r = check_i64_stats(&stats, op, val);
    if holds_i64(op, x as i64, val) {
        assert!(r);
    }
    kani::cover!(!r);
}

/// Int32/Date32 column, Int32/Date32 literal.
#[kani::proof]
#[kani::unwind(3)]
#[kani::stub_verified(eval_range_i32)]
fn c05_l2_check_i32_stats_int32col() {
    let (min, max, nulls) = (opt_i32(), opt_i32(), opt_u64());
    let x: i32 = kani::any();
    let val: i32 = kani::any();
    kani::assume(within_i64(x as i64, min.map(|v| v as i64), max.map(|v| v as i64)));
    let op = any_cmp();
    let stats = ParquetStatistics::int32(min, max, None, nulls, false);
    let r = check_i32_stats(&stats, op, val);
    if holds_i64(op, x as i64, val as i64) {
        assert!(r);
    }
    kani::cover!(!r);
}

/// Int64 column, Int32/Date32 literal (D5: statistics truncated with `as i32`).
#[kani::proof]
#[kani::unwind(3)]
#[kani::stub_verified(eval_range_i32)]
#[kani::stub_verified(eval_range)]
fn c05_l2_check_i32_stats_int64col() {
    let (min, max, nulls) = (opt_i64(), opt_i64(), opt_u64());
    let x: i64 = kani::any();
    let val: i32 = kani::any();
    kani::assume(within_i64(x, min, max));
    let op = any_cmp();
    let stats = ParquetStatistics::int64(min, max, None, nulls, false);
    let r = check_i32_stats(&stats, op, val);
    if holds_i64(op, x, val as i64) {
        assert!(r);
    }
    kani::cover!(!r);
}

/// Double column, f64 literal — all inputs (expected to expose D6).
#[kani::proof]
#[kani::unwind(3)]
#[kani::stub_verified(eval_range_f64)]
fn c05_l2_check_f64_stats_double() {
    let (min, max, nulls) = (opt_f64(), opt_f64(), opt_u64());
    let x: f64 = kani::any();
    let val: f64 = kani::any();
    kani::assume(within_f64(x, min, max));
    let op = any_cmp();
    let stats = ParquetStatistics::double(min, max, None, nulls, false);
    let r = check_f64_stats(&stats, op, val);
    if holds_f64(op, x, val) {
        assert!(r);
    }
}

/// Same, outside the known-finding class D6.
#[kani::proof]
#[kani::unwind(3)]
#[kani::stub_verified(eval_range_f64)]
fn c05_l2_check_f64_stats_double__excluding_known() {
    let (min, max, nulls) = (opt_f64(), opt_f64(), opt_u64());
    let x: f64 = kani::any();
    let val: f64 = kani::any();
    kani::assume(within_f64(x, min, max));
    kani::assume(!d6_class(x, val));
    let op = any_cmp();
    let stats = ParquetStatistics::double(min, max, None, nulls, false);
    let r = check_f64_stats(&stats, op, val);
    if holds_f64(op, x, val) {
        assert!(r);
    }
    kani::cover!(!r);
    kani::cover!(r && min.is_some() && max.is_some());
}

/// Float column (f32 values widened), f64 literal, outside D6.
#[kani::proof]
#[kani::unwind(3)]
#[kani::stub_verified(eval_range_f64)]
fn c05_l2_check_f64_stats_float__excluding_known() {
    let (min, max, nulls) = (opt_f32(), opt_f32(), opt_u64());
    let x: f32 = kani::any();
    let val: f64 = kani::any();
    kani::assume(within_f64(x as f64, min.map(|v| v as f64), max.map(|v| v as f64)));
    kani::assume(!d6_class(x as f64, val));
    let op = any_cmp();
    let stats = ParquetStatistics::float(min, max, None, nulls, false);
    let r = check_f64_stats(&stats, op, val);
    if holds_f64(op, x as f64, val) {
        assert!(r);
    }
    kani::cover!(!r);
}

/// A literal type that does not match the statistics type is never pruned on.
#[kani::proof]
#[kani::unwind(3)]
fn c05_l2_mismatched_stats_conservative() {
    let op = any_cmp();
    let d = ParquetStatistics::double(opt_f64(), opt_f64(), None, None, false);
    let i = ParquetStatistics::int64(opt_i64(), opt_i64(), None, None, false);
    let b = ParquetStatistics::boolean(None, None, None, None, false);
    assert!(check_i64_stats(&d, op, kani::any()));
    assert!(check_i32_stats(&d, op, kani::any()));
    assert!(check_f64_stats(&i, op, kani::any()));
    assert!(check_i64_stats(&b, op, kani::any()));
    assert!(check_utf8_stats(&i, op, "a"));
}

#[kani::proof]
fn c05_l4_flip_op() {
    let op = any_op();
    let f = flip_op(&op);
    let (a, b): (i64, i64) = (kani::any(), kani::any());
    // `a op b` is `b flip(op) a`
    if is_cmp(op) {
        assert!(is_cmp(f));
        assert!(holds_i64(op, a, b) == holds_i64(f, b, a));
    } else {
        assert!(f == op);
    }
}

// ---------------------------------------------------------------- L3 / L4 regions (lane KX)
include!("/verif/kani/gen/kx_definite_comparison.rs");
include!("/verif/kani/gen/kx_check_comparison.rs");

fn any_int_stats() -> (ParquetStatistics, Option<i64>, Option<i64>, Option<u64>, bool) {
    let nulls = opt_u64();
    if kani::any() {
        let (min, max) = (opt_i64(), opt_i64());
        (ParquetStatistics::int64(min, max, None, nulls, false), min, max, nulls, true)
    } else {
        let (min, max) = (opt_i32(), opt_i32());
        (
            ParquetStatistics::int32(min, max, None, nulls, false),
            min.map(|v| v as i64),
            max.map(|v| v as i64),
            nulls,
            false,
        )
    }
}

fn any_int_literal() -> (ScalarValue, i64) {
    let k: u8 = kani::any();
    kani::assume(k < 4);
    match k {
        0 => {
            let v: i64 = kani::any();
            (ScalarValue::Int64(v), v)
        }
        1 => {
            let v: i32 = kani::any();
            (ScalarValue::Int32(v), v as i64)
        }
        2 => {
            let v: i32 = kani::any();
            (ScalarValue::Date32(v), v as i64)
        }
        _ => {
            let v: i64 = kani::any();
            (ScalarValue::Timestamp(v), v)
        }
    }
}

/// definite_comparison, integer statistics vs integer literal: a `true` answer
/// must mean no NULLs and the comparison holds for every value in [min, max].
#[kani::proof]
#[kani::unwind(3)]
fn c05_l3_definite_int_int() {
    let (stats, min, max, nulls, is64) = any_int_stats();
    let (lit, val) = any_int_literal();
    let x: i64 = kani::any();
    kani::assume(within_i64(x, min, max));
    if !is64 {
        kani::assume(x >= i32::MIN as i64 && x <= i32::MAX as i64);
    }
    let op = any_op();
    let flipped: bool = kani::any();
    let r = kx_definite_comparison(&stats, &op, &lit, flipped);
    if r {
        assert!(nulls == Some(0));
        assert!(is_cmp(op));
        if flipped {
            assert!(holds_i64(op, val, x));
        } else {
            assert!(holds_i64(op, x, val));
        }
    }
    kani::cover!(r && flipped);
    kani::cover!(r && !flipped && min != max);
    std::mem::forget(lit);
}

/// definite_comparison, Double statistics vs Float64 literal, outside D6.
#[kani::proof]
#[kani::unwind(3)]
fn c05_l3_definite_f64_f64__excluding_known() {
    let (min, max, nulls) = (opt_f64(), opt_f64(), opt_u64());
    let stats = ParquetStatistics::double(min, max, None, nulls, false);
    let val: f64 = kani::any();
    let lit = ScalarValue::Float64(OrderedFloat(val));
    let x: f64 = kani::any();
    kani::assume(within_f64(x, min, max));
    kani::assume(!d6_class(x, val));
    let op = any_op();
    let flipped: bool = kani::any();
    let r = kx_definite_comparison(&stats, &op, &lit, flipped);
    if r {
        assert!(nulls == Some(0));
        assert!(is_cmp(op));
        if flipped {
            assert!(holds_f64(op, val, x));
        } else {
            assert!(holds_f64(op, x, val));
        }
    }
    kani::cover!(r && flipped);
    kani::cover!(r && !flipped && min != max);
    std::mem::forget(lit);
}

/// Same over all doubles (expected to expose D6).
#[kani::proof]
#[kani::unwind(3)]
fn c05_l3_definite_f64_f64() {
    let (min, max, nulls) = (opt_f64(), opt_f64(), opt_u64());
    let stats = ParquetStatistics::double(min, max, None, nulls, false);
    let val: f64 = kani::any();
    let lit = ScalarValue::Float64(OrderedFloat(val));
    let x: f64 = kani::any();
    kani::assume(within_f64(x, min, max));
    let op = any_op();
    let flipped: bool = kani::any();
    let r = kx_definite_comparison(&stats, &op, &lit, flipped);
    if r {
        if flipped {
            assert!(holds_f64(op, val, x));
        } else {
            assert!(holds_f64(op, x, val));
        }
    }
    std::mem::forget(lit);
}

/// Mixed: integer statistics vs Float64 literal, and Double statistics vs
/// integer literal. The interpreter coerces the integer side to f64, so the
/// row-level comparison is on `as f64` values (rounding is monotone).
#[kani::proof]
#[kani::unwind(3)]
fn c05_l3_definite_mixed__excluding_known() {
    let op = any_op();
    let flipped: bool = kani::any();
    let (xf, valf, r, nulls);
    if kani::any() {
        let (stats, min, max, n, is64) = any_int_stats();
        let val: f64 = kani::any();
        let lit = ScalarValue::Float64(OrderedFloat(val));
        let x: i64 = kani::any();
        kani::assume(within_i64(x, min, max));
        if !is64 {
            kani::assume(x >= i32::MIN as i64 && x <= i32::MAX as i64);
        }
        r = kx_definite_comparison(&stats, &op, &lit, flipped);
        xf = x as f64;
        valf = val;
        nulls = n;
        std::mem::forget(lit);
    } else {
        let (min, max, n) = (opt_f64(), opt_f64(), opt_u64());
        let stats = ParquetStatistics::double(min, max, None, n, false);
        let (lit, val) = any_int_literal();
        let x: f64 = kani::any();
        kani::assume(within_f64(x, min, max));
        r = kx_definite_comparison(&stats, &op, &lit, flipped);
        xf = x;
        valf = val as f64;
        nulls = n;
        std::mem::forget(lit);
    }
    kani::assume(!d6_class(xf, valf));
    if r {
        assert!(nulls == Some(0));
        if flipped {
            assert!(holds_f64(op, valf, xf));
        } else {
            assert!(holds_f64(op, xf, valf));
        }
    }
    kani::cover!(r);
}

/// Statistics / literal types the function does not handle never prove anything.
#[kani::proof]
#[kani::unwind(3)]
fn c05_l3_definite_unsupported_is_false() {
    let op = any_op();
    let flipped: bool = kani::any();
    let b = ParquetStatistics::boolean(Some(true), Some(true), None, Some(0), false);
    let lit = ScalarValue::Int64(kani::any());
    assert!(!kx_definite_comparison(&b, &op, &lit, flipped));
    let i = ParquetStatistics::int64(Some(1), Some(1), None, Some(0), false);
    let lit2 = ScalarValue::Boolean(kani::any());
    assert!(!kx_definite_comparison(&i, &op, &lit2, flipped));
    let lit3 = ScalarValue::Null;
    assert!(!kx_definite_comparison(&i, &op, &lit3, flipped));
    // no null count => never definite
    let i2 = ParquetStatistics::int64(Some(1), Some(1), None, None, false);
    assert!(!kx_definite_comparison(&i2, &BinaryOp::Eq, &ScalarValue::Int64(1), flipped));
    std::mem::forget((lit, lit2, lit3));
}

/// check_comparison dispatch, integer statistics vs integer literal.
#[kani::proof]
#[kani::unwind(3)]
fn c05_l4_check_comparison_int_int() {
    let (stats, min, max, _nulls, is64) = any_int_stats();
    let (lit, val) = any_int_literal();
    let x: i64 = kani::any();
    kani::assume(within_i64(x, min, max));
    if !is64 {
        kani::assume(x >= i32::MIN as i64 && x <= i32::MAX as i64);
    }
    let op = any_cmp();
    let flipped: bool = kani::any();
    let r = kx_check_comparison(&stats, &op, &lit, flipped);
    let h = if flipped { holds_i64(op, val, x) } else { holds_i64(op, x, val) };
    if h {
        assert!(r);
    }
    kani::cover!(!r && flipped);
    kani::cover!(!r && !flipped);
    std::mem::forget(lit);
}

/// check_comparison dispatch, Double/Float statistics vs Float64/Float32 literal, outside D6.
#[kani::proof]
#[kani::unwind(3)]
fn c05_l4_check_comparison_f64__excluding_known() {
    let nulls = opt_u64();
    let x: f64;
    let stats;
    if kani::any() {
        let (min, max) = (opt_f64(), opt_f64());
        x = kani::any();
        kani::assume(within_f64(x, min, max));
        stats = ParquetStatistics::double(min, max, None, nulls, false);
    } else {
        let (min, max) = (opt_f32(), opt_f32());
        let xs: f32 = kani::any();
        x = xs as f64;
        kani::assume(within_f64(x, min.map(|v| v as f64), max.map(|v| v as f64)));
        stats = ParquetStatistics::float(min, max, None, nulls, false);
    }
    let (lit, val) = if kani::any() {
        let v: f64 = kani::any();
        (ScalarValue::Float64(OrderedFloat(v)), v)
    } else {
        let v: f32 = kani::any();
        (ScalarValue::Float32(OrderedFloat(v)), v as f64)
    };
    kani::assume(!d6_class(x, val));
    let op = any_cmp();
    let flipped: bool = kani::any();
    let r = kx_check_comparison(&stats, &op, &lit, flipped);
    let h = if flipped { holds_f64(op, val, x) } else { holds_f64(op, x, val) };
    if h {
        assert!(r);
    }
    kani::cover!(!r && flipped);
    kani::cover!(!r && !flipped);
    std::mem::forget(lit);
}

/// Unsupported literal types and non-comparison operators are conservative.
#[kani::proof]
#[kani::unwind(3)]
fn c05_l4_check_comparison_conservative() {
    let (stats, _, _, _, _) = any_int_stats();
    let flipped: bool = kani::any();
    let op = any_op();
    let lit = ScalarValue::Boolean(kani::any());
    assert!(kx_check_comparison(&stats, &op, &lit, flipped));
    let lit = ScalarValue::Null;
    assert!(kx_check_comparison(&stats, &op, &lit, flipped));
    let (lit, _) = any_int_literal();
    if !is_cmp(op) {
        assert!(kx_check_comparison(&stats, &op, &lit, flipped));
    }
    std::mem::forget(lit);
}

// ---------------------------------------------------------------- L4 dispatch against callee contracts
// The check_comparison region again, this time with the four check_*_stats callees as
// CONTRACT ORACLES: ghost row x; HOLDS[i] is the (arbitrary) truth of `x op_i literal`
// for the six comparison operators. Contract of every callee (proved by the L1/L2
// obligations): holds(x op val) ==> returns true. Verified here: whichever literal type
// and orientation, the region asks the right callee about the right operator.
pub mod disp {
    use super::super::{BinaryOp, ParquetStatistics, ScalarValue};
    use super::super::flip_op;
    pub static mut HOLDS: [bool; 6] = [false; 6];
    /// which callee was asked: 1 = i64, 2 = i32, 3 = f64, 4 = utf8
    pub static mut ASKED: u8 = 0;
    pub fn op_ix(op: BinaryOp) -> usize {
        match op {
            BinaryOp::Eq => 0,
            BinaryOp::NotEq => 1,
            BinaryOp::Lt => 2,
            BinaryOp::LtEq => 3,
            BinaryOp::Gt => 4,
            BinaryOp::GtEq => 5,
            _ => panic!("VERIF oracle: non-comparison operator (unsupported)"),
        }
    }
    fn oracle(op: BinaryOp, who: u8) -> bool {
        unsafe { ASKED = who };
        let r: bool = kani::any();
        kani::assume(!unsafe { HOLDS[op_ix(op)] } || r);
        r
    }
    pub fn check_i64_stats(_s: &ParquetStatistics, op: BinaryOp, _v: i64) -> bool {
        oracle(op, 1)
    }
    pub fn check_i32_stats(_s: &ParquetStatistics, op: BinaryOp, _v: i32) -> bool {
        oracle(op, 2)
    }
    pub fn check_f64_stats(_s: &ParquetStatistics, op: BinaryOp, _v: f64) -> bool {
        oracle(op, 3)
    }
    pub fn check_utf8_stats(_s: &ParquetStatistics, op: BinaryOp, _v: &str) -> bool {
        oracle(op, 4)
    }
    include!("/verif/kani/gen/kx_check_comparison_d.rs");
}
/// specification of "literal on the left": `lit op col` is `col mirror(op) lit`
fn mirror(op: BinaryOp) -> BinaryOp {
    match op {
        BinaryOp::Lt => BinaryOp::Gt,
        BinaryOp::LtEq => BinaryOp::GtEq,
        BinaryOp::Gt => BinaryOp::Lt,
        BinaryOp::GtEq => BinaryOp::LtEq,
        o => o,
    }
}
macro_rules! dispatch_harness {
    ($name:ident, $lit:expr, $who:expr) => {
        #[kani::proof]
        #[kani::unwind(3)]
        fn $name() {
            unsafe {
                disp::HOLDS = [kani::any(), kani::any(), kani::any(), kani::any(), kani::any(), kani::any()];
            }
            let op = any_cmp();
            let flipped: bool = kani::any();
            let lit: ScalarValue = $lit;
            let stats = ParquetStatistics::boolean(None, None, None, None, false); // opaque to the oracles
            let r = disp::kx_check_comparison_d(&stats, &op, &lit, flipped);
            // the row-level predicate is `x op lit`, or `lit op x` when the literal is on the left
            let col_op = if flipped { mirror(op) } else { op };
            if unsafe { disp::HOLDS[disp::op_ix(col_op)] } {
                assert!(r);
            }
            assert!(unsafe { disp::ASKED } == $who);
            kani::cover!(!r && flipped);
            std::mem::forget(lit);
        }
    };
}
dispatch_harness!(c05_l4_dispatch_int64, ScalarValue::Int64(kani::any()), 1);
dispatch_harness!(c05_l4_dispatch_timestamp, ScalarValue::Timestamp(kani::any()), 1);
dispatch_harness!(c05_l4_dispatch_int32, ScalarValue::Int32(kani::any()), 2);
dispatch_harness!(c05_l4_dispatch_date32, ScalarValue::Date32(kani::any()), 2);
dispatch_harness!(c05_l4_dispatch_float64, ScalarValue::Float64(OrderedFloat(kani::any())), 3);
dispatch_harness!(c05_l4_dispatch_float32, ScalarValue::Float32(OrderedFloat(kani::any())), 3);
dispatch_harness!(c05_l4_dispatch_utf8, ScalarValue::Utf8(String::from("m")), 4);

/// check_utf8_stats: ByteArray statistics consistent with the row's string, byte order.
/// B(min / max / row value / literal of exactly 1 byte each).
#[kani::proof]
#[kani::unwind(6)]
fn c05_l2_check_utf8_stats_b1() {
    let (mn, mx, x, v): (u8, u8, u8, u8) = (kani::any(), kani::any(), kani::any(), kani::any());
    kani::assume(mn < 0x80 && mx < 0x80 && x < 0x80 && v < 0x80);
    kani::assume(mn <= x && x <= mx);
    let op = any_cmp();
    let stats = ParquetStatistics::byte_array(
        Some(parquet::data_type::ByteArray::from(vec![mn])),
        Some(parquet::data_type::ByteArray::from(vec![mx])),
        None,
        opt_u64(),
        false,
    );
    let vb = [v];
    let val = std::str::from_utf8(&vb).unwrap();
    let r = check_utf8_stats(&stats, op, val);
    if holds_bytes(op, &[x], &[v]) {
        assert!(r);
    }
    kani::cover!(!r);
    std::mem::forget(stats);
}

// ---------------------------------------------------------------- L5 / L6 combinators (inductive step)
// The bodies of row_group_might_match / row_group_definitely_matches / prune_row_groups
// are compiled verbatim inside `comb`, where the names they call resolve to CONTRACT
// ORACLES: a call returns any value the callee's contract allows. Ghost: one arbitrary
// row rho consistent with the statistics; every sub-expression has an arbitrary 3VL truth
// value at rho (leaves are tagged literals). Contracts (the induction hypothesis):
//   might(e)      : tv(e) == T  ==>  result            (proved for leaves by L1-L4)
//   definitely(e) : result      ==>  tv(e) == T        (proved for leaves by L3)
// Each harness proves the same contract for one combinator case given the contracts of
// its operands, for ALL truth values: structural induction over predicates of any depth.
pub mod comb {
    use super::super::{BinaryOp, Expr, ScalarValue, UnaryOp};
    pub struct KRg;
    pub struct KSchema;
    pub struct KMeta {
        pub n: usize,
    }
    static KRG: KRg = KRg;
    impl KMeta {
        pub fn num_row_groups(&self) -> usize {
            self.n
        }
        pub fn row_group(&self, i: usize) -> &KRg {
            assert!(i < self.n);
            unsafe { CUR_RG = i };
            &KRG
        }
    }
    pub const T: u8 = 1;
    pub const F: u8 = 0;
    pub const N: u8 = 2;
    pub static mut TV_LEAF: [u8; 3] = [0; 3];
    /// truth of `leaf a  op  leaf b` for op in {Eq, GtEq, LtEq, other comparison}
    pub static mut TV_CMP: [[[u8; 4]; 3]; 3] = [[[0; 4]; 3]; 3];
    pub static mut CUR_RG: usize = 0;
    pub static mut RG_TRUTH: [u8; 3] = [0; 3];

    pub fn and3(a: u8, b: u8) -> u8 {
        if a == F || b == F { F } else if a == T && b == T { T } else { N }
    }
    pub fn or3(a: u8, b: u8) -> u8 {
        if a == T || b == T { T } else if a == F && b == F { F } else { N }
    }
    pub fn not3(a: u8) -> u8 {
        if a == T { F } else if a == F { T } else { N }
    }
    fn tag(e: &Expr) -> usize {
        match e {
            Expr::Literal(ScalarValue::Int64(t)) if *t >= 0 && *t < 3 => *t as usize,
            _ => panic!("VERIF oracle: operand shape outside the harness (unsupported)"),
        }
    }
    fn op_ix(op: &BinaryOp) -> usize {
        match op {
            BinaryOp::Eq => 0,
            BinaryOp::GtEq => 1,
            BinaryOp::LtEq => 2,
            _ => 3,
        }
    }
    pub fn tv_cmp(left: &Expr, op: &BinaryOp, right: &Expr) -> u8 {
        let v = unsafe { TV_CMP[tag(left)][tag(right)][op_ix(op)] };
        kani::assume(v <= 2);
        v
    }
    pub fn tv(e: &Expr) -> u8 {
        match e {
            Expr::Literal(_) => {
                let v = unsafe { TV_LEAF[tag(e)] };
                kani::assume(v <= 2);
                v
            }
            Expr::BinaryExpr { left, op, right } => tv_cmp(left, op, right),
            _ => panic!("VERIF oracle: expression shape outside the harness (unsupported)"),
        }
    }
    // ---- contract oracles (same names and arities as the real callees)
    pub fn row_group_might_match(e: &Expr, _rg: &KRg, _s: &KSchema) -> bool {
        let r: bool = kani::any();
        let truth = if unsafe { MODE_PRUNE } { unsafe { RG_TRUTH[CUR_RG] } } else { tv(e) };
        kani::assume(truth != T || r);
        r
    }
    pub static mut MODE_PRUNE: bool = false;
    pub fn row_group_definitely_matches(e: &Expr, _rg: &KRg, _s: &KSchema) -> bool {
        let r: bool = kani::any();
        kani::assume(!r || tv(e) == T);
        r
    }
    pub fn check_comparison(left: &Expr, op: &BinaryOp, right: &Expr, _rg: &KRg, _s: &KSchema) -> bool {
        let r: bool = kani::any();
        kani::assume(tv_cmp(left, op, right) != T || r);
        r
    }
    pub fn definite_comparison(left: &Expr, op: &BinaryOp, right: &Expr, _rg: &KRg, _s: &KSchema) -> bool {
        let r: bool = kani::any();
        kani::assume(!r || tv_cmp(left, op, right) == T);
        r
    }
    include!("/verif/kani/gen/kx_might_match_body.rs");
    include!("/verif/kani/gen/kx_definitely_body.rs");
    include!("/verif/kani/gen/kx_prune_body.rs");
}

fn tvv(v: u8) -> u8 {
    kani::assume(v <= 2);
    v
}
fn any_tv() -> u8 {
    let t: u8 = kani::any();
    kani::assume(t <= 2);
    t
}
fn setup_truth() {
    // arbitrary truth tables; every reader restricts the entry it reads to {F, T, N}
    unsafe {
        comb::TV_LEAF = kani::any();
        comb::TV_CMP = kani::any();
        let mut i = 0;
        while i < 3 {
            kani::assume(comb::TV_LEAF[i] <= 2);
            i += 1;
        }
    }
}
fn leaf(t: i64) -> Box<Expr> {
    Box::new(Expr::Literal(ScalarValue::Int64(t)))
}
fn stub_expr_clone(e: &Expr) -> Expr {
    match e {
        Expr::Literal(ScalarValue::Int64(t)) => Expr::Literal(ScalarValue::Int64(*t)),
        _ => panic!("VERIF stub: Expr::clone outside the harness domain (unsupported)"),
    }
}

/// AND / OR / any comparison operator at the root, both paths.
#[kani::proof]
#[kani::unwind(5)]
fn c05_l5_step_binary() {
    setup_truth();
    let op = any_op_logical();
    let pred = Expr::BinaryExpr { left: leaf(0), op, right: leaf(1) };
    let (t0, t1, tc) = unsafe { (tvv(comb::TV_LEAF[0]), tvv(comb::TV_LEAF[1]), tvv(comb::TV_CMP[0][1][match op { BinaryOp::Eq => 0, BinaryOp::GtEq => 1, BinaryOp::LtEq => 2, _ => 3 }])) };
    let truth = match op {
        BinaryOp::And => comb::and3(t0, t1),
        BinaryOp::Or => comb::or3(t0, t1),
        _ => tc,
    };
    let might = comb::kx_might_match_body(&pred, &comb::KRg, &comb::KSchema);
    if truth == comb::T {
        assert!(might);
    }
    let def = comb::kx_definitely_body(&pred, &comb::KRg, &comb::KSchema);
    if def {
        assert!(truth == comb::T);
    }
    kani::cover!(!might);
    kani::cover!(def);
    std::mem::forget(pred);
}
fn any_op_logical() -> BinaryOp {
    let k: u8 = kani::any();
    kani::assume(k < 8);
    match k {
        0 => BinaryOp::Eq,
        1 => BinaryOp::NotEq,
        2 => BinaryOp::Lt,
        3 => BinaryOp::LtEq,
        4 => BinaryOp::Gt,
        5 => BinaryOp::GtEq,
        6 => BinaryOp::And,
        _ => BinaryOp::Or,
    }
}

/// NOT at the root: might(NOT e) must hold whenever e is FALSE for the row;
/// definitely(NOT e) is never claimed.
#[kani::proof]
#[kani::unwind(5)]
fn c05_l5_step_not() {
    setup_truth();
    let pred = Expr::UnaryExpr { op: UnaryOp::Not, expr: leaf(0) };
    let truth = comb::not3(tvv(unsafe { comb::TV_LEAF[0] }));
    let might = comb::kx_might_match_body(&pred, &comb::KRg, &comb::KSchema);
    if truth == comb::T {
        assert!(might);
    }
    assert!(!comb::kx_definitely_body(&pred, &comb::KRg, &comb::KSchema));
    kani::cover!(!might);
    std::mem::forget(pred);
}

// BETWEEN / IN build temporary comparison expressions (`expr.clone()`, Box::new(val.clone()))
// and drop them; with the real `Expr` CBMC has to carry the drop/clone glue of every variant
// (LogicalPlan, Arc, String ...) and does not finish in 8 min. In `comb_c` the SAME function
// text is compiled against a carrier `Expr` (R6) that has exactly the variants and field
// names the text mentions.
pub mod comb_c {
    use crate::planner::{BinaryOp, UnaryOp};
    pub use super::comb::{and3, not3, or3, KRg, KSchema, F, N, T};
    /// carrier for `Box<Expr>`: a copyable reference (no clone / drop glue to unfold)
    #[derive(Clone, Copy)]
    pub struct KBox(pub &'static Expr);
    impl std::ops::Deref for KBox {
        type Target = Expr;
        fn deref(&self) -> &Expr {
            self.0
        }
    }
    /// the region writes `Box::new(val.clone())`; here that allocates and leaks
    pub struct Box;
    impl Box {
        #[allow(clippy::new_ret_no_self)]
        pub fn new(e: Expr) -> KBox {
            KBox(std::boxed::Box::leak(std::boxed::Box::new(e)))
        }
    }
    pub enum Expr {
        Leaf(u8),
        Other(u8),
        BinaryExpr { left: KBox, op: BinaryOp, right: KBox },
        UnaryExpr { op: UnaryOp, expr: KBox },
        Between { expr: KBox, low: KBox, high: KBox, negated: bool },
        InList { expr: KBox, list: &'static [Expr], negated: bool },
    }
    impl Clone for Expr {
        fn clone(&self) -> Expr {
            match self {
                Expr::Leaf(t) => Expr::Leaf(*t),
                _ => panic!("VERIF carrier: Expr::clone outside the harness domain (unsupported)"),
            }
        }
    }
    /// truth values of the four comparison atoms the harnesses use, at the ghost row:
    /// GE01 = (leaf0 >= leaf1), LE02 = (leaf0 <= leaf2), EQ01 = (leaf0 = leaf1), EQ02 = (leaf0 = leaf2)
    pub static mut GE01: u8 = 0;
    pub static mut LE02: u8 = 0;
    pub static mut EQ01: u8 = 0;
    pub static mut EQ02: u8 = 0;
    fn tag(e: &Expr) -> u8 {
        match e {
            Expr::Leaf(t) if *t < 3 => *t,
            _ => panic!("VERIF oracle: operand shape outside the harness (unsupported)"),
        }
    }
    pub fn tv_cmp(left: &Expr, op: &BinaryOp, right: &Expr) -> u8 {
        let v = match (tag(left), op, tag(right)) {
            (0, BinaryOp::GtEq, 1) => unsafe { GE01 },
            (0, BinaryOp::LtEq, 2) => unsafe { LE02 },
            (0, BinaryOp::Eq, 1) => unsafe { EQ01 },
            (0, BinaryOp::Eq, 2) => unsafe { EQ02 },
            _ => panic!("VERIF oracle: comparison atom outside the harness (unsupported)"),
        };
        kani::assume(v <= 2);
        v
    }
    pub fn tv(e: &Expr) -> u8 {
        match e {
            Expr::BinaryExpr { left, op, right } => tv_cmp(left, op, right),
            _ => panic!("VERIF oracle: expression shape outside the harness (unsupported)"),
        }
    }
    pub fn row_group_might_match(e: &Expr, _rg: &KRg, _s: &KSchema) -> bool {
        let r: bool = kani::any();
        kani::assume(tv(e) != T || r);
        r
    }
    pub fn row_group_definitely_matches(e: &Expr, _rg: &KRg, _s: &KSchema) -> bool {
        let r: bool = kani::any();
        kani::assume(!r || tv(e) == T);
        r
    }
    pub fn check_comparison(left: &Expr, op: &BinaryOp, right: &Expr, _rg: &KRg, _s: &KSchema) -> bool {
        let r: bool = kani::any();
        kani::assume(tv_cmp(left, op, right) != T || r);
        r
    }
    pub fn definite_comparison(left: &Expr, op: &BinaryOp, right: &Expr, _rg: &KRg, _s: &KSchema) -> bool {
        let r: bool = kani::any();
        kani::assume(!r || tv_cmp(left, op, right) == T);
        r
    }
    include!("/verif/kani/gen/kx_might_match_body_c.rs");
    include!("/verif/kani/gen/kx_definitely_body_c.rs");
}
fn setup_truth_c() {
    unsafe {
        comb_c::GE01 = any_tv();
        comb_c::LE02 = any_tv();
        comb_c::EQ01 = any_tv();
        comb_c::EQ02 = any_tv();
    }
}
fn cleaf(t: u8) -> comb_c::KBox {
    comb_c::Box::new(comb_c::Expr::Leaf(t))
}

/// x BETWEEN lo AND hi (and NOT BETWEEN).
#[kani::proof]
#[kani::unwind(3)]
fn c05_l5_step_between() {
    setup_truth_c();
    let negated: bool = kani::any();
    let pred = comb_c::Expr::Between { expr: cleaf(0), low: cleaf(1), high: cleaf(2), negated };
    let inner = comb::and3(unsafe { comb_c::GE01 }, unsafe { comb_c::LE02 });
    let truth = if negated { comb::not3(inner) } else { inner };
    let might = comb_c::kx_might_match_body_c(&pred, &comb::KRg, &comb::KSchema);
    if truth == comb::T {
        assert!(might);
    }
    let def = comb_c::kx_definitely_body_c(&pred, &comb::KRg, &comb::KSchema);
    if def {
        assert!(truth == comb::T);
    }
    kani::cover!(!might && !negated);
    kani::cover!(def);
    std::mem::forget(pred);
}

/// x IN (v1, v2) and NOT IN; B(list length <= 2).
#[kani::proof]
#[kani::unwind(3)]
fn c05_l5_step_in_list() {
    setup_truth_c();
    let negated: bool = kani::any();
    let n: u8 = kani::any();
    kani::assume(n <= 2);
    static L2: [comb_c::Expr; 2] = [comb_c::Expr::Leaf(1), comb_c::Expr::Leaf(2)];
    let list: &'static [comb_c::Expr] = &L2[..n as usize];
    let pred = comb_c::Expr::InList { expr: cleaf(0), list, negated };
    let e1 = if n >= 1 { unsafe { comb_c::EQ01 } } else { comb::F };
    let e2 = if n >= 2 { unsafe { comb_c::EQ02 } } else { comb::F };
    let inner = comb::or3(e1, e2);
    let truth = if negated { comb::not3(inner) } else { inner };
    let might = comb_c::kx_might_match_body_c(&pred, &comb::KRg, &comb::KSchema);
    if truth == comb::T {
        assert!(might);
    }
    assert!(!comb_c::kx_definitely_body_c(&pred, &comb::KRg, &comb::KSchema));
    kani::cover!(!might && n == 2);
    std::mem::forget(pred);
}

/// every other expression kind is conservative: might = true, definitely = false.
#[kani::proof]
#[kani::unwind(3)]
fn c05_l5_other_kinds_conservative() {
    let pred = comb_c::Expr::Other(kani::any());
    assert!(comb_c::kx_might_match_body_c(&pred, &comb::KRg, &comb::KSchema));
    assert!(!comb_c::kx_definitely_body_c(&pred, &comb::KRg, &comb::KSchema));
    let op: u8 = kani::any();
    kani::assume(op < 3);
    let uop = match op {
        0 => UnaryOp::IsNull,
        1 => UnaryOp::IsNotNull,
        _ => UnaryOp::Negate,
    };
    let pred2 = comb_c::Expr::UnaryExpr { op: uop, expr: cleaf(0) };
    assert!(comb_c::kx_might_match_body_c(&pred2, &comb::KRg, &comb::KSchema));
    assert!(!comb_c::kx_definitely_body_c(&pred2, &comb::KRg, &comb::KSchema));
    std::mem::forget((pred, pred2));
}

/// prune_row_groups: the result is ascending, in range, and contains every row group
/// that holds a matching row; without a predicate nothing is dropped. B(<= 3 row groups).
#[kani::proof]
#[kani::unwind(6)]
fn c05_l6_prune_row_groups() {
    let n: usize = kani::any();
    kani::assume(n <= 3);
    let meta = comb::KMeta { n };
    unsafe {
        comb::MODE_PRUNE = true;
        let mut i = 0;
        while i < 3 {
            comb::RG_TRUTH[i] = any_tv();
            i += 1;
        }
    }
    let pred = Expr::Literal(ScalarValue::Int64(0));
    let with_pred: bool = kani::any();
    let out = comb::kx_prune_body(&meta, &comb::KSchema, if with_pred { Some(&pred) } else { None });
    let mut k = 0;
    while k < out.len() {
        assert!(out[k] < n);
        if k > 0 {
            assert!(out[k - 1] < out[k]);
        }
        k += 1;
    }
    let mut g = 0;
    while g < n {
        let keep_needed = !with_pred || unsafe { comb::RG_TRUTH[g] } == comb::T;
        if keep_needed {
            let mut found = false;
            let mut q = 0;
            while q < out.len() {
                found = found || out[q] == g;
                q += 1;
            }
            assert!(found);
        }
        g += 1;
    }
    if !with_pred {
        assert!(out.len() == n);
    }
    kani::cover!(with_pred && out.len() < n);
    std::mem::forget(pred);
}

// playback slot: the replay step writes Kani's concrete-playback test here
include!("/verif/kani/gen/playback_storage_row_group_pruning.rs");
