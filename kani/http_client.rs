// Contract harnesses for http_client::parse_response (src/distributed/http_client.rs), property C16.
// Lane B (bounded stand-in): the real function on structured inputs — the status line and
// header block are laid out by the harness, body bytes and the truncation point are symbolic.
#![allow(dead_code, unused_imports, unused_variables)]
use super::*;

/// no header terminator => error, never a success with an empty body. B(<= 6 arbitrary bytes).
#[kani::proof]
#[kani::unwind(9)]
fn c16_b_no_terminator_is_error() {
    let raw: [u8; 6] = kani::any();
    let n: usize = kani::any();
    kani::assume(n <= 6);
    let r = &raw[..n];
    // no CRLFCRLF anywhere
    let mut i = 0;
    while i + 4 <= n {
        kani::assume(!(r[i] == b'\r' && r[i + 1] == b'\n' && r[i + 2] == b'\r' && r[i + 3] == b'\n'));
        i += 1;
    }
    assert!(parse_response(r).is_err());
}

/// a response without Content-Length: status, and the body is exactly what follows the terminator.
#[kani::proof]
#[kani::unwind(24)]
fn c16_b_body_is_rest_after_terminator() {
    let (x, y): (u8, u8) = (kani::any(), kani::any());
    let raw = [b'H', b'T', b'T', b'P', b'/', b'1', b'.', b'1', b' ', b'2', b'0', b'4', b' ', b'N', b'\r', b'\n', b'\r', b'\n', x, y];
    let r = parse_response(&raw);
    assert!(r.is_ok());
    let r = r.unwrap();
    assert!(r.status == 204);
    assert!(r.body.len() == 2 && r.body[0] == x && r.body[1] == y);
    std::mem::forget(r);
}

/// the property's clause: a body shorter than the declared Content-Length is never
/// returned as a success — for EVERY truncation point of a 3-byte declared body.
#[kani::proof]
#[kani::unwind(40)]
fn c16_b_truncated_body_is_error() {
    let head = *b"HTTP/1.1 200 OK\r\nContent-Length: 3\r\n\r\n";
    let body: [u8; 3] = kani::any();
    let k: usize = kani::any();
    kani::assume(k < 3); // cut short: 0, 1 or 2 of the 3 declared bytes arrived
    let mut raw = [0u8; 41];
    let mut i = 0;
    while i < 38 {
        raw[i] = head[i];
        i += 1;
    }
    let mut j = 0;
    while j < 3 {
        raw[38 + j] = body[j];
        j += 1;
    }
    let r = parse_response(&raw[..38 + k]);
    match r {
        Ok(resp) => {
            // if it is a success, the body must be complete
            assert!(resp.body.len() >= 3);
            std::mem::forget(resp);
        }
        Err(e) => std::mem::forget(e),
    }
}

/// a complete body with Content-Length is returned whole.
#[kani::proof]
#[kani::unwind(40)]
fn c16_b_complete_body_with_length() {
    let (x, y): (u8, u8) = (kani::any(), kani::any());
    let head = *b"HTTP/1.1 200 OK\r\nContent-Length: 2\r\n\r\n";
    let mut raw = [0u8; 40];
    let mut i = 0;
    while i < 38 {
        raw[i] = head[i];
        i += 1;
    }
    raw[38] = x;
    raw[39] = y;
    let r = parse_response(&raw);
    assert!(r.is_ok());
    let r = r.unwrap();
    assert!(r.status == 200 && r.body.len() == 2 && r.body[0] == x && r.body[1] == y);
    std::mem::forget(r);
}

/// concrete-input variants (every byte fixed): CBMC executes the real parser on one input per
/// truncation point — a bounded stand-in of the weakest kind, kept because the symbolic
/// versions above exceed 20 min.
macro_rules! truncated_fixed {
    ($name:ident, $k:expr) => {
        #[kani::proof]
        #[kani::unwind(48)]
        fn $name() {
            let raw = *b"HTTP/1.1 200 OK\r\nContent-Length: 3\r\n\r\nabc";
            let r = parse_response(&raw[..38 + $k]);
            match r {
                Ok(resp) => {
                    assert!(resp.body.len() >= 3);
                    std::mem::forget(resp);
                }
                Err(e) => std::mem::forget(e),
            }
        }
    };
}
truncated_fixed!(c16_b_truncated_fixed_0, 0);
truncated_fixed!(c16_b_truncated_fixed_2, 2);
truncated_fixed!(c16_b_complete_fixed_3, 3);

include!("/verif/kani/gen/playback_distributed_http_client.rs");
