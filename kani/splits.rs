// Contract harnesses for src/distributed/splits.rs (properties C11, C12).
#![allow(dead_code, unused_imports, unused_variables)]
use super::*;

// ---------------------------------------------------------------- C11 / S1
/// target_split_bytes: complete over all total_bytes and node counts up to 2^32
/// (the property ranges over 1..64; for nodes >= 2^59 `SPLITS_PER_NODE * nodes` overflows,
/// recorded as the function's precondition). Stated without a second division so that the
/// only divider in the formula is the real one.
#[kani::proof]
fn c11_s1_target_split_bytes() {
    let total: u64 = kani::any();
    let nodes: usize = kani::any();
    kani::assume(nodes <= (1usize << 32));
    let r = target_split_bytes(total, nodes);
    assert!(r >= 1); // precondition of the cutting loop (c11_pass2: target >= 1)
    assert!(r <= MAX_SPLIT_BYTES); // never leaves boulders
    kani::cover!(r == MAX_SPLIT_BYTES);
    kani::cover!(r < MIN_SPLIT_BYTES && total > 0);
}

/// lower clamp: below MIN_SPLIT_BYTES only when the table is so small that one split per
/// node is already smaller (r * nodes >= total, i.e. r >= ceil(total / nodes)).
#[kani::proof]
fn c11_s1_target_split_bytes_floor() {
    let total: u64 = kani::any();
    let nodes: usize = kani::any();
    kani::assume(nodes >= 1 && nodes <= 64);
    let r = target_split_bytes(total, nodes);
    if r < MIN_SPLIT_BYTES {
        assert!((r as u128) * (nodes as u128) >= total as u128);
    }
}

// ---------------------------------------------------------------- C11 / S6 digest
include!("/verif/kani/gen/kx_digest_step.rs");

/// One FNV-1a step is exactly h -> (h ^ b) * P with P odd and P * PINV == 1 (mod 2^64):
/// multiplication by P is therefore a bijection, so the step is a bijection in the running
/// hash and injective in the byte; a difference at one position of the canonical stream
/// propagates to the end (ring argument over Z/2^64, pen and paper).
#[kani::proof]
fn c11_s6_digest_step_is_invertible_form() {
    let h: u64 = kani::any();
    let b: u8 = kani::any();
    const P: u64 = 0x100000001b3;
    const PINV: u64 = 0xce965057aff6957b;
    assert!(P.wrapping_mul(PINV) == 1);
    assert!(P % 2 == 1);
    let s = kx_digest_step(h, &b);
    assert!(s == (h ^ b as u64).wrapping_mul(P));
}

/// carriers for the whole body of SplitSet::digest
pub struct KS {
    b: [u8; 2],
    n: usize,
}
impl KS {
    pub fn as_bytes(&self) -> &[u8] {
        &self.b[..self.n]
    }
}
pub struct KSp {
    pub file: KS,
    pub row_group: usize,
    pub row_offset: i64,
    pub num_rows: i64,
    pub bytes: u64,
}
pub struct KSet {
    pub table: KS,
    pub splits: Vec<KSp>,
}
include!("/verif/kani/gen/kx_digest_body.rs");

fn fnv(mut h: u64, bytes: &[u8]) -> u64 {
    let mut i = 0;
    while i < bytes.len() {
        h = (h ^ bytes[i] as u64).wrapping_mul(0x100000001b3);
        i += 1;
    }
    h
}
fn ks1() -> KS {
    KS { b: kani::any(), n: 1 }
}
/// The digest is FNV-1a over exactly the canonical stream
///   table ++ for each split: file ++ row_group(u64 LE) ++ row_offset(LE) ++ num_rows(LE) ++ bytes(LE)
/// and nothing else (no path, no totals, no target size). B(1 split, 1-byte names).
#[kani::proof]
#[kani::unwind(10)]
fn c11_s6_digest_is_fnv_of_canonical_stream() {
    let set = KSet { table: ks1(), splits: vec![KSp { file: ks1(), row_group: kani::any(), row_offset: kani::any(), num_rows: kani::any(), bytes: kani::any() }] };
    let got = set.kx_digest_body();
    let mut h: u64 = 0xcbf29ce484222325;
    h = fnv(h, set.table.as_bytes());
    let s = &set.splits[0];
    h = fnv(h, s.file.as_bytes());
    h = fnv(h, &(s.row_group as u64).to_le_bytes());
    h = fnv(h, &s.row_offset.to_le_bytes());
    h = fnv(h, &s.num_rows.to_le_bytes());
    h = fnv(h, &s.bytes.to_le_bytes());
    assert!(got == h);
    std::mem::forget(set);
}
/// empty split set: only the table name is hashed.
#[kani::proof]
#[kani::unwind(10)]
fn c11_s6_digest_empty_set() {
    let set = KSet { table: ks1(), splits: Vec::new() };
    let got = set.kx_digest_body();
    assert!(got == fnv(0xcbf29ce484222325, set.table.as_bytes()));
    std::mem::forget(set);
}

// ---------------------------------------------------------------- C11 / S5 canonical key
fn mk_split(table: &str, file: &str, path: &str, rg: usize, off: i64, rows: i64, bytes: u64) -> Split {
    Split { table: table.to_string(), path: PathBuf::from(path), file: file.to_string(), row_group: rg, row_offset: off, num_rows: rows, bytes }
}

/// canonical_key is (table, file, row_group, row_offset): equal keys mean the same row
/// range of the same (table, file); the key ignores `path`, `num_rows`, `bytes`.
#[kani::proof]
#[kani::unwind(12)]
fn c11_s5_canonical_key_fields() {
    let (rg1, rg2): (usize, usize) = (kani::any(), kani::any());
    let (o1, o2): (i64, i64) = (kani::any(), kani::any());
    let a = mk_split("t", "x.parquet", "/data/x.parquet", rg1, o1, kani::any(), kani::any());
    let b = mk_split("t", "x.parquet", "/mnt/other/x.parquet", rg2, o2, kani::any(), kani::any());
    let eq = a.canonical_key() == b.canonical_key();
    assert!(eq == (rg1 == rg2 && o1 == o2));
    let lt = a.canonical_key() < b.canonical_key();
    assert!(lt == (rg1 < rg2 || (rg1 == rg2 && o1 < o2)));
    std::mem::forget((a, b));
}

// ---------------------------------------------------------------- C12 bounded twin
fn two_split_set(b0: u64, b1: u64, r0: i64, r1: i64) -> SplitSet {
    SplitSet {
        table: String::from("t"),
        splits: vec![mk_split("t", "a", "/d/a", 0, 0, r0, b0), mk_split("t", "a", "/d/a", 1, 0, r1, b1)],
        total_bytes: b0.wrapping_add(b1),
        total_rows: r0.wrapping_add(r1),
        target_split_bytes: 1,
    }
}

/// Whole real assign_lpt (sorts, vec! initialisers, glue): every split owned exactly once,
/// totals are sums, larger split processed first, deterministic. B(2 splits, <= 2 nodes).
#[kani::proof]
#[kani::unwind(6)]
fn c12_b_assign_lpt_whole() {
    let (b0, b1): (u64, u64) = (kani::any(), kani::any());
    let (r0, r1): (i64, i64) = (kani::any(), kani::any());
    kani::assume(b0.checked_add(b1).is_some());
    kani::assume(r0 >= 0 && r1 >= 0 && r0.checked_add(r1).is_some());
    let nodes: usize = kani::any();
    kani::assume(nodes <= 2);
    let set = two_split_set(b0, b1, r0, r1);
    let a = assign_lpt(&set, nodes);
    let n = nodes.max(1);
    assert!(a.nodes == n && a.per_node.len() == n && a.node_bytes.len() == n && a.node_rows.len() == n && a.node_splits.len() == n);
    let mut count = [0usize; 2];
    let mut k = 0;
    while k < n {
        let mut sb: u64 = 0;
        let mut sr: i64 = 0;
        let mut j = 0;
        while j < a.per_node[k].len() {
            let idx = a.per_node[k][j];
            assert!(idx < 2);
            count[idx] += 1;
            sb += set.splits[idx].bytes;
            sr += set.splits[idx].num_rows;
            if j > 0 {
                assert!(a.per_node[k][j - 1] < idx); // canonical order within a node
            }
            j += 1;
        }
        assert!(a.node_bytes[k] == sb);
        assert!(a.node_rows[k] == sr);
        assert!(a.node_splits[k] == a.per_node[k].len());
        k += 1;
    }
    assert!(count[0] == 1 && count[1] == 1);
    assert!(a.total_bytes == set.total_bytes);
    if n == 2 {
        // greedy: the two splits never share a node while the other is empty
        assert!(a.per_node[0].len() == 1 && a.per_node[1].len() == 1);
        // larger first, ties by canonical key (index 0): node 0 gets the larger
        let first = a.per_node[0][0];
        assert!(set.splits[first].bytes >= set.splits[1 - first].bytes);
        if b0 == b1 {
            assert!(first == 0);
        }
    }
    // idle_nodes = exactly the nodes with no splits
    let idle = a.idle_nodes();
    let mut q = 0;
    while q < idle.len() {
        assert!(a.node_splits[idle[q]] == 0);
        q += 1;
    }
    std::mem::forget((set, a, idle));
}

include!("/verif/kani/gen/playback_distributed_splits.rs");
