// Contract harnesses for the spilled-sort comparator of src/physical/operators/spillable.rs
// (property C25, "spilled sort" clause). ExternalSortExec sorts every run with Arrow's
// lexsort (per key: direction and NULLS FIRST/LAST from the SortExpr) and then merges the
// runs row by row with `compare_rows` -> `compare_array_values`. The merge is correct only
// if that comparator is the SAME order the runs were sorted in.
//   * compare_rows (closure body region; evaluate_expr and Arrow's make_comparator as oracles)
//     must be the lexicographic order with each key's direction AND null placement;
//   * the spilled branch of execute must apply the fetch; one step of the merge loop must keep
//     every queued output row pointing at the row that was chosen.
// (Before the fixes a4970c7 / cd13eee / 4de503f these obligations failed: findings D10, D11, D15.)
#![allow(dead_code, unused_imports, unused_variables)]

pub mod rows_c {
    pub use std::cmp::Ordering;
    // the region names `crate::planner::SortDirection` by absolute path: the real enum is used
    use crate::planner::{NullOrdering, SortDirection};

    /// a run batch: two rows, up to three key columns of nullable i64
    pub struct KBatch {
        pub cols: [[Option<i64>; 2]; 3],
    }
    pub struct KCol {
        pub cells: [Option<i64>; 2],
    }
    pub struct KExpr {
        pub col: usize,
    }
    pub struct KSortExpr {
        pub expr: KExpr,
        pub direction: SortDirection,
        pub nulls: NullOrdering,
    }
    /// oracle: the key column of a run batch (evaluation of the sort expression never fails here)
    pub fn evaluate_expr(b: &KBatch, e: &KExpr) -> Result<KCol, ()> {
        Ok(KCol { cells: b.cols[e.col] })
    }
    impl KCol {
        pub fn as_ref(&self) -> &KCol {
            self
        }
        // the Array methods a comparator may consult besides make_comparator
        pub fn is_null(&self, row: usize) -> bool {
            self.cells[row].is_none()
        }
        pub fn is_valid(&self, row: usize) -> bool {
            self.cells[row].is_some()
        }
        pub fn len(&self) -> usize {
            2
        }
        pub fn null_count(&self) -> usize {
            self.cells[0].is_none() as usize + self.cells[1].is_none() as usize
        }
    }
    /// carriers for the two Arrow names the region mentions by path
    pub mod arrow {
        pub mod compute {
            #[derive(Clone, Copy)]
            pub struct SortOptions {
                pub descending: bool,
                pub nulls_first: bool,
            }
            impl Default for SortOptions {
                /// Arrow's default: ascending, NULLs first
                fn default() -> Self {
                    SortOptions { descending: false, nulls_first: true }
                }
            }
        }
        pub mod array {
            use super::super::{KCol, Ordering};
            /// Arrow's documented contract for make_comparator(left, right, opts): values compare
            /// ascending, reversed when opts.descending; NULL sorts before every value iff
            /// opts.nulls_first (independently of the direction); NULL == NULL.
            pub fn make_comparator<'a>(
                a: &'a KCol,
                b: &'a KCol,
                opts: super::compute::SortOptions,
            ) -> Result<impl Fn(usize, usize) -> Ordering + 'a, ()> {
                Ok(move |ra: usize, rb: usize| match (a.cells[ra], b.cells[rb]) {
                    (None, None) => Ordering::Equal,
                    (None, Some(_)) => if opts.nulls_first { Ordering::Less } else { Ordering::Greater },
                    (Some(_), None) => if opts.nulls_first { Ordering::Greater } else { Ordering::Less },
                    (Some(x), Some(y)) => if opts.descending { y.cmp(&x) } else { x.cmp(&y) },
                })
            }
        }
    }
    include!("/verif/kani/gen/kx_c25_compare_rows.rs");
    include!("/verif/kani/gen/kx_c25_compare_key.rs");

    fn any_dir() -> SortDirection {
        if kani::any() { SortDirection::Asc } else { SortDirection::Desc }
    }
    fn any_nulls() -> NullOrdering {
        if kani::any() { NullOrdering::NullsFirst } else { NullOrdering::NullsLast }
    }
    fn any_cell() -> Option<i64> {
        if kani::any() { Some(kani::any()) } else { None }
    }
    /// the order Arrow's lexsort gave each run for one key: SortOptions { descending, nulls_first }
    fn key_order(x: Option<i64>, y: Option<i64>, dir: &SortDirection, nulls: &NullOrdering) -> Ordering {
        let nulls_first = matches!(nulls, NullOrdering::NullsFirst);
        match (x, y) {
            (None, None) => Ordering::Equal,
            (None, Some(_)) => if nulls_first { Ordering::Less } else { Ordering::Greater },
            (Some(_), None) => if nulls_first { Ordering::Greater } else { Ordering::Less },
            (Some(p), Some(q)) => {
                let c = p.cmp(&q);
                if *dir == SortDirection::Desc { c.reverse() } else { c }
            }
        }
    }
    fn any_batch() -> KBatch {
        KBatch { cols: [[any_cell(), any_cell()], [any_cell(), any_cell()], [any_cell(), any_cell()]] }
    }
    fn check(max_keys: usize) {
        let n: usize = kani::any();
        kani::assume(n >= 1 && n <= max_keys);
        let a = any_batch();
        let b = any_batch();
        let keys = [
            KSortExpr { expr: KExpr { col: 0 }, direction: any_dir(), nulls: any_nulls() },
            KSortExpr { expr: KExpr { col: 1 }, direction: any_dir(), nulls: any_nulls() },
            KSortExpr { expr: KExpr { col: 2 }, direction: any_dir(), nulls: any_nulls() },
        ];
        let (ra, rb): (usize, usize) = (kani::any(), kani::any());
        kani::assume(ra < 2 && rb < 2);
        let got = kx_c25_compare_rows(&a, ra, &b, rb, &keys[..n]);
        let mut want = Ordering::Equal;
        let mut k = 0;
        while k < n {
            if want == Ordering::Equal {
                want = key_order(a.cols[k][ra], b.cols[k][rb], &keys[k].direction, &keys[k].nulls);
            }
            k += 1;
        }
        assert!(got == want);
    }
    /// the loop body for ONE key (loop-free, full domain: complete): a non-Equal return is that key's
    /// run order; falling through happens exactly when the two cells tie under it
    #[kani::proof]
    fn c25_kx_compare_key_is_key_order() {
        let a = any_batch();
        let b = any_batch();
        let col: usize = kani::any();
        kani::assume(col < 3);
        let key = KSortExpr { expr: KExpr { col }, direction: any_dir(), nulls: any_nulls() };
        let (ra, rb): (usize, usize) = (kani::any(), kani::any());
        kani::assume(ra < 2 && rb < 2);
        let got = kx_c25_compare_key(&a, ra, &b, rb, &key);
        assert!(got == key_order(a.cols[col][ra], b.cols[col][rb], &key.direction, &key.nulls));
    }
    /// every combination of key directions and NULL placements, 1 or 2 keys, NULL and non-NULL cells
    #[kani::proof]
    #[kani::unwind(4)]
    fn c25_kx_compare_rows_is_run_order() {
        check(2);
    }
    /// thorough tier: up to three keys
    #[kani::proof]
    #[kani::unwind(5)]
    fn c25_kx_compare_rows_is_run_order_k3() {
        check(3);
    }
    include!("/verif/kani/gen/playback_physical_operators_spillable__rows_c.rs");
}


/// C25 / D11: the spilled branch of ExternalSortExec::execute must honour `fetch` (the planner's
/// Sort+Limit fusion removes the LimitExec above the sort and relies on the operator for it).
pub mod fetch_c {
    /// `Vec` inside this module is a small-list carrier (R6): at most CAP elements, same method names
    pub const CAP: usize = 3;
    #[derive(Clone, Copy)]
    pub struct Vec<T: Copy> {
        items: [Option<T>; CAP],
        n: usize,
    }
    impl<T: Copy> Vec<T> {
        pub fn new() -> Self {
            Vec { items: [None; CAP], n: 0 }
        }
        pub fn push(&mut self, x: T) {
            assert!(self.n < CAP, "carrier capacity");
            self.items[self.n] = Some(x);
            self.n += 1;
        }
        pub fn len(&self) -> usize {
            self.n
        }
        pub fn is_empty(&self) -> bool {
            self.n == 0
        }
    }
    impl<T: Copy> std::ops::Index<usize> for Vec<T> {
        type Output = T;
        fn index(&self, i: usize) -> &T {
            assert!(i < self.n, "index out of bounds");
            self.items[i].as_ref().unwrap()
        }
    }
    pub struct KVecIter<T: Copy> {
        v: Vec<T>,
        k: usize,
    }
    impl<T: Copy> Iterator for KVecIter<T> {
        type Item = T;
        fn next(&mut self) -> Option<T> {
            if self.k < self.v.n {
                self.k += 1;
                self.v.items[self.k - 1]
            } else {
                None
            }
        }
    }
    impl<T: Copy> IntoIterator for Vec<T> {
        type Item = T;
        type IntoIter = KVecIter<T>;
        fn into_iter(self) -> KVecIter<T> {
            KVecIter { v: self, k: 0 }
        }
    }
    /// a run file holding `rows` rows
    #[derive(Clone, Copy)]
    pub struct KPath {
        pub file: bool,
        pub rows: usize,
    }
    impl KPath {
        pub fn is_file(&self) -> bool {
            self.file
        }
    }
    /// rows [start, start+len) of the fully sorted order
    #[derive(Clone, Copy)]
    pub struct RecordBatch {
        pub start: usize,
        pub len: usize,
    }
    impl RecordBatch {
        pub fn num_rows(&self) -> usize {
            self.len
        }
        pub fn slice(&self, offset: usize, length: usize) -> RecordBatch {
            assert!(offset + length <= self.len, "RecordBatch::slice precondition");
            RecordBatch { start: self.start + offset, len: length }
        }
    }
    /// contract oracle: `total` sorted rows, as one or two batches in order
    fn sorted_rows(total: usize) -> Vec<RecordBatch> {
        let cut: usize = kani::any();
        kani::assume(cut <= total);
        let mut v = Vec::new();
        if cut > 0 {
            v.push(RecordBatch { start: 0, len: cut });
        }
        if total - cut > 0 {
            v.push(RecordBatch { start: cut, len: total - cut });
        }
        v
    }
    pub fn read_parquet(p: &KPath) -> std::result::Result<Vec<RecordBatch>, ()> {
        Ok(sorted_rows(p.rows))
    }
    pub struct KSort {
        pub fetch: Option<usize>,
        /// oracle parameter: merged output in up to three batches instead of two
        pub three: bool,
    }
    impl KSort {
        pub fn merge_runs(&self, runs: &Vec<KPath>) -> std::result::Result<Vec<RecordBatch>, ()> {
            let mut total = 0usize;
            let mut k = 0;
            while k < runs.len() {
                total += runs[k].rows;
                k += 1;
            }
            if !self.three {
                return Ok(sorted_rows(total));
            }
            let (c1, c2): (usize, usize) = (kani::any(), kani::any());
            kani::assume(c1 <= c2 && c2 <= total);
            let mut v = Vec::new();
            if c1 > 0 {
                v.push(RecordBatch { start: 0, len: c1 });
            }
            if c2 - c1 > 0 {
                v.push(RecordBatch { start: c1, len: c2 - c1 });
            }
            if total - c2 > 0 {
                v.push(RecordBatch { start: c2, len: total - c2 });
            }
            Ok(v)
        }
    }
    include!("/verif/kani/gen/kx_c25_spilled_result.rs");

    /// all run counts 0..=3, all run sizes, the merged rows split into batches anywhere, fetch None /
    /// Some(k) for every k (0 and beyond the row count included): the operator's output is exactly
    /// rows [0, min(fetch, total)) of the merged order, contiguous and in order
    #[kani::proof]
    #[kani::unwind(5)]
    fn c25_kx_spilled_result_honours_fetch() {
        fetch_check(false);
    }
    /// thorough tier: the merged rows arrive in up to three batches
    #[kani::proof]
    #[kani::unwind(5)]
    fn c25_kx_spilled_result_honours_fetch_3batches() {
        fetch_check(true);
    }
    fn fetch_check(three: bool) {
        let n: usize = kani::any();
        kani::assume(n <= CAP);
        let mut runs = Vec::new();
        let mut total = 0usize;
        let mut k = 0;
        while k < n {
            let rows: usize = kani::any();
            kani::assume(rows >= 1 && rows <= 1 << 40);
            runs.push(KPath { file: true, rows });
            total += rows;
            k += 1;
        }
        let fetch: Option<usize> = if kani::any() { Some(kani::any()) } else { None };
        let op = KSort { fetch, three };
        let out = op.kx_c25_spilled_result(runs);
        let out = out.expect("no oracle fails");
        let want = match fetch {
            Some(f) => if f < total { f } else { total },
            None => total,
        };
        let mut next = 0usize;
        let mut k = 0;
        while k < out.len() {
            assert!(out[k].start == next); // contiguous, in order, from row 0
            next += out[k].len;
            k += 1;
        }
        assert!(next == want);
    }
    include!("/verif/kani/gen/playback_physical_operators_spillable__fetch_c.rs");
}

/// C25 / D15: one step of the k-way merge loop (after the minimum run was chosen). The rows waiting in
/// `output_rows` are (run, index-into-the-run's-CURRENT-buffer) pairs; the step must not let a pending
/// pair outlive the buffer it indexes.
pub mod merge_c {
    /// rows [base, base+len) of run `run`
    #[derive(Clone, Copy)]
    pub struct RecordBatch {
        pub run: usize,
        pub base: usize,
        pub len: usize,
    }
    impl RecordBatch {
        pub fn num_rows(&self) -> usize {
            self.len
        }
    }
    /// the Parquet reader of one run: yields the following batches of that run
    pub struct KIter {
        pub run: usize,
        pub next_base: usize,
        pub next_len: usize,
        pub left: u8,
    }
    impl KIter {
        pub fn next(&mut self) -> Option<std::result::Result<RecordBatch, ()>> {
            if self.left == 0 {
                return None;
            }
            self.left -= 1;
            let b = RecordBatch { run: self.run, base: self.next_base, len: self.next_len };
            self.next_base += self.next_len;
            Some(Ok(b))
        }
    }
    pub const CAP: usize = 4;
    #[derive(Clone, Copy)]
    pub struct KVec<T: Copy> {
        pub items: [T; CAP],
        pub n: usize,
    }
    impl<T: Copy> KVec<T> {
        pub fn push(&mut self, x: T) {
            assert!(self.n < CAP, "carrier capacity");
            self.items[self.n] = x;
            self.n += 1;
        }
        pub fn len(&self) -> usize {
            self.n
        }
        pub fn is_empty(&self) -> bool {
            self.n == 0
        }
        pub fn clear(&mut self) {
            self.n = 0;
        }
    }
    /// a materialized output batch: the (run, row-of-run) identities of its rows, in order
    pub type KOut = KVec<(usize, usize)>;
    pub struct KSort;
    impl KSort {
        /// contract oracle for build_merged_batch: row (run, i) becomes row i of the batch that is in
        /// run_buffers[run] NOW; rows of an absent buffer are silently dropped (`if let Some`), an index
        /// past the buffer is Arrow's take error
        pub fn build_merged_batch(
            &self,
            run_buffers: &[Option<RecordBatch>; 2],
            rows: &KVec<(usize, usize)>,
        ) -> std::result::Result<KOut, ()> {
            let mut out = KOut { items: [(0, 0); CAP], n: 0 };
            let mut k = 0;
            while k < rows.n {
                let (r, i) = rows.items[k];
                if let Some(b) = run_buffers[r] {
                    if i >= b.len {
                        return Err(());
                    }
                    out.push((r, b.base + i));
                }
                k += 1;
            }
            Ok(out)
        }
    }
    include!("/verif/kani/gen/kx_c25_merge_step.rs");

    /// Inductive step from an ARBITRARY loop state that satisfies the invariant
    ///   I: every pending (run, i) has run_buffers[run] = Some(b) and i < run_indices[run] <= b.len
    /// (so it denotes row b.base + i of that run). After the step: the rows already materialized plus
    /// the rows still pending, read through the buffers as they are NOW, are the old pending rows
    /// followed by the chosen row - and I holds again.
    #[kani::proof]
    #[kani::unwind(6)]
    fn c25_kx_merge_step_keeps_pending_rows_b2() {
        merge_step_check(2);
    }
    /// thorough tier: up to three queued rows
    #[kani::proof]
    #[kani::unwind(7)]
    fn c25_kx_merge_step_keeps_pending_rows_b3() {
        merge_step_check(3);
    }
    fn merge_step_check(max_pending: usize) {
        let mut bufs: [Option<RecordBatch>; 2] = [None, None];
        let mut idx: [usize; 2] = [0, 0];
        let mut iters = [
            KIter { run: 0, next_base: 0, next_len: 1, left: 0 },
            KIter { run: 1, next_base: 0, next_len: 1, left: 0 },
        ];
        let mut r = 0;
        while r < 2 {
            let base: usize = kani::any();
            let len: usize = kani::any();
            kani::assume(base <= 1 << 40 && len >= 1 && len <= 1 << 20);
            if kani::any() {
                bufs[r] = Some(RecordBatch { run: r, base, len });
                idx[r] = kani::any();
                kani::assume(idx[r] < len);
            }
            let next_len: usize = kani::any();
            kani::assume(next_len >= 1 && next_len <= 1 << 20);
            iters[r] = KIter { run: r, next_base: base + len, next_len, left: kani::any() };
            r += 1;
        }
        // pending rows (at most max_pending: carrier bound), each satisfying I
        let mut pending = KVec { items: [(0usize, 0usize); CAP], n: 0 };
        let mut ids = KVec { items: [(0usize, 0usize); CAP], n: 0 };
        let np: usize = kani::any();
        kani::assume(np <= max_pending);
        let mut k = 0;
        while k < np {
            let (pr, pi): (usize, usize) = (kani::any(), kani::any());
            kani::assume(pr < 2);
            match bufs[pr] {
                Some(b) => {
                    kani::assume(pi < idx[pr]);
                    ids.push((pr, b.base + pi));
                }
                None => kani::assume(false),
            }
            pending.push((pr, pi));
            k += 1;
        }
        let run_idx: usize = kani::any();
        kani::assume(run_idx < 2);
        let chosen = match bufs[run_idx] {
            Some(b) => (run_idx, b.base + idx[run_idx]),
            None => {
                kani::assume(false);
                (0, 0)
            }
        };
        ids.push(chosen);
        let buffer_rows: usize = kani::any();
        kani::assume(buffer_rows >= 1);
        let mut done: KVec<KOut> = KVec { items: [KOut { items: [(0, 0); CAP], n: 0 }; CAP], n: 0 };

        let res = KSort.kx_c25_merge_step(run_idx, &mut bufs, &mut idx, &mut iters, &mut pending, &mut done, buffer_rows);
        assert!(res.is_ok()); // no reader fails here, so the step must not fail either

        // rows materialized by the step, then rows still pending (through the buffers as they are now)
        let mut got = KVec { items: [(0usize, 0usize); CAP], n: 0 };
        let mut k = 0;
        while k < done.n {
            let mut j = 0;
            while j < done.items[k].n {
                got.push(done.items[k].items[j]);
                j += 1;
            }
            k += 1;
        }
        let mut k = 0;
        while k < pending.n {
            let (pr, pi) = pending.items[k];
            match bufs[pr] {
                Some(b) => {
                    assert!(pi < idx[pr] && idx[pr] <= b.len); // invariant I again
                    got.push((pr, b.base + pi));
                }
                None => assert!(false), // a pending row whose buffer is gone
            }
            k += 1;
        }
        assert!(got.n == ids.n);
        let mut k = 0;
        while k < ids.n {
            assert!(got.items[k] == ids.items[k]);
            k += 1;
        }
    }
    include!("/verif/kani/gen/playback_physical_operators_spillable__merge_c.rs");
}

/// C25: the sort_batch of spillable.rs (sorts every spilled run): same obligation as sort.rs's sort_batch -
/// one sort column per key, in key order, with the key's direction and NULL placement; no limit (runs are
/// sorted completely; the fetch is applied after the merge); every column taken with the indices.
pub mod sortb_c {
    use crate::planner::{NullOrdering, SortDirection};
    include!("/verif/kani/inc/sort_carriers.rs");
    /// the function imports these three by `use arrow::compute::{..}` inside its body
    pub mod arrow {
        pub mod compute {
            pub use super::super::compute::lexsort_to_indices;
            pub use super::super::{SortColumn, SortOptions};
        }
    }
    include!("/verif/kani/gen/kx_c25_run_sort_batch.rs");

    fn any_dir() -> SortDirection {
        if kani::any() { SortDirection::Asc } else { SortDirection::Desc }
    }
    fn any_nulls() -> NullOrdering {
        if kani::any() { NullOrdering::NullsFirst } else { NullOrdering::NullsLast }
    }
    #[kani::proof]
    #[kani::unwind(5)]
    fn c25_kx_run_sort_batch_asks_arrow_for_the_stated_order() {
        let nk: usize = kani::any();
        kani::assume(nk >= 1 && nk <= CAP);
        let keys = [
            SortExpr { expr: KExpr { col: kani::any() }, direction: any_dir(), nulls: any_nulls() },
            SortExpr { expr: KExpr { col: kani::any() }, direction: any_dir(), nulls: any_nulls() },
            SortExpr { expr: KExpr { col: kani::any() }, direction: any_dir(), nulls: any_nulls() },
        ];
        kani::assume(keys[0].expr.col < 50 && keys[1].expr.col < 50 && keys[2].expr.col < 50);
        let nc: usize = kani::any();
        kani::assume(nc >= 1 && nc <= CAP);
        let mut cols = Vec::new();
        let mut c = 0;
        while c < nc {
            cols.push(ArrayRef { id: c as u8, taken_with: None });
            c += 1;
        }
        let rows: usize = kani::any();
        let batch = RecordBatch { schema: KSchema { id: 9 }, cols, rows };
        let out = kx_c25_run_sort_batch(&batch, &keys[..nk]).expect("no oracle fails");
        assert!(out.schema == batch.schema && out.cols.len() == nc);
        if rows == 0 {
            let mut c = 0;
            while c < nc {
                assert!(out.cols[c] == batch.cols[c]);
                c += 1;
            }
        } else {
            let mut c = 0;
            while c < nc {
                assert!(out.cols[c].id == c as u8);
                let idx = out.cols[c].taken_with.expect("every column is reordered");
                assert!(idx.n == nk && idx.limit.is_none()); // a run is sorted completely
                let mut k = 0;
                while k < nk {
                    let (id, desc, nf) = idx.keys[k];
                    assert!(id == 100 + keys[k].expr.col);
                    assert!(desc == (keys[k].direction == SortDirection::Desc));
                    assert!(nf == matches!(keys[k].nulls, NullOrdering::NullsFirst));
                    k += 1;
                }
                c += 1;
            }
        }
    }
    include!("/verif/kani/gen/playback_physical_operators_spillable__sortb_c.rs");
}

include!("/verif/kani/gen/playback_physical_operators_spillable.rs");
