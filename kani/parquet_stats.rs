// Contract harnesses for ParquetTable::compute_statistics (src/storage/parquet.rs), property C18.
// The function opens files itself; its LOGIC is three regions, cut verbatim:
//   F1  per-chunk fold body (with the local `struct ColAcc`, also copied verbatim)
//   F3a `non_null`, F3b the `ndv_est` expression
// Ghost model: every column chunk holds values; its own footer statistics are sound for
// that chunk (null count exact when present, min <= v <= max when present). Accumulator
// invariant after folding chunks c1..cn:
//   J1 null_count == Some(N) ==> N is the exact number of NULLs in c1..cn
//   J2 min_i64 == Some(a) && max_i64 == Some(b) ==> every non-NULL value of c1..cn is in [a, b]
//   J3 once a non-NULL value has been folded: bounds are present or the column is marked unbounded
// Each harness is the inductive step: an arbitrary accumulator satisfying J for an arbitrary
// earlier value `y`, one more chunk with an arbitrary value `x`. The base case is the fresh
// entry `ColAcc { None, None, Some(0), false, false }` with no value folded.
#![allow(dead_code, unused_imports, unused_variables)]
use parquet::file::statistics::Statistics as ParquetStatistics;

include!("/verif/kani/gen/kx_c18_colacc.rs");

pub struct KChunk {
    stats: Option<ParquetStatistics>,
    num_values: i64,
}
impl KChunk {
    pub fn statistics(&self) -> Option<&ParquetStatistics> {
        self.stats.as_ref()
    }
    pub fn num_values(&self) -> i64 {
        self.num_values
    }
}

include!("/verif/kani/gen/kx_c18_fold_chunk.rs");
include!("/verif/kani/gen/kx_c18_non_null.rs");
include!("/verif/kani/gen/kx_c18_reported.rs");
include!("/verif/kani/gen/kx_c18_ndv.rs");

fn opt_i64() -> Option<i64> {
    if kani::any() { Some(kani::any()) } else { None }
}
fn opt_i32() -> Option<i32> {
    if kani::any() { Some(kani::any()) } else { None }
}
fn opt_u64() -> Option<u64> {
    if kani::any() { Some(kani::any()) } else { None }
}
/// representation invariant J0: min and max are set together, exactly when integer
/// statistics have been seen (asserted to be preserved by every step)
fn j0(acc: &ColAcc) -> bool {
    acc.min_i64.is_some() == acc.max_i64.is_some() && acc.has_int_stats == acc.min_i64.is_some()
}
fn any_acc() -> ColAcc {
    let acc = ColAcc { min_i64: opt_i64(), max_i64: opt_i64(), null_count: opt_u64(), has_int_stats: kani::any(), unbounded: kani::any() };
    kani::assume(j0(&acc));
    acc
}
/// what the table REPORTS for the column (region F4), and J2 stated on it:
/// reported bounds cover the value
fn reported_covers(acc: &ColAcc, v: i64) -> bool {
    match kx_c18_reported(acc) {
        (Some(a), Some(b)) => a <= v && v <= b,
        (None, None) => true,
        _ => false, // never half a bound
    }
}

/// F1 + F4, one more chunk folded into an arbitrary accumulator. `y` is an arbitrary
/// non-NULL value of the earlier chunks (covered by what was reported before), `x` an
/// arbitrary non-NULL value of the new chunk, about which only the chunk's own statistics
/// say anything (all variants: no statistics, no min/max, Int64, Int32; null count optional).
#[kani::proof]
#[kani::unwind(3)]
fn c18_f1_fold_chunk_step() {
    let mut acc = any_acc();
    let (old_nulls_true, y): (u64, i64) = (kani::any(), kani::any());
    kani::assume(acc.null_count.map_or(true, |n| n == old_nulls_true));
    // ghost: has any non-NULL value been folded so far? (false for a fresh column entry)
    let seen_nonnull: bool = kani::any();
    // J3: once a non-NULL value has been folded, the column either has bounds or is marked unbounded
    kani::assume(!seen_nonnull || acc.min_i64.is_some() || acc.unbounded);
    kani::assume(!seen_nonnull || reported_covers(&acc, y));
    let chunk_nulls_true: u64 = kani::any();
    kani::assume(old_nulls_true.checked_add(chunk_nulls_true).is_some());
    let num_values: i64 = kani::any();
    kani::assume(num_values >= 0 && chunk_nulls_true < num_values as u64); // the chunk holds a non-NULL value x
    let x: i64 = kani::any();
    let reported_nulls = if kani::any() { Some(chunk_nulls_true) } else { None };
    let k: u8 = kani::any();
    kani::assume(k < 3);
    let stats = match k {
        0 => None,
        1 => {
            let (mn, mx) = (opt_i64(), opt_i64());
            kani::assume(mn.map_or(true, |m| m <= x) && mx.map_or(true, |m| x <= m));
            Some(ParquetStatistics::int64(mn, mx, None, reported_nulls, false))
        }
        _ => {
            let (mn, mx) = (opt_i32(), opt_i32());
            kani::assume(x >= i32::MIN as i64 && x <= i32::MAX as i64);
            kani::assume(mn.map_or(true, |m| m as i64 <= x) && mx.map_or(true, |m| x <= m as i64));
            Some(ParquetStatistics::int32(mn, mx, None, reported_nulls, false))
        }
    };
    let no_stats = stats.is_none();
    let chunk = KChunk { stats, num_values };
    kx_c18_fold_chunk(&chunk, &mut acc);
    assert!(j0(&acc));
    // J1: an exact null count or none
    match acc.null_count {
        Some(n) => {
            assert!(n == old_nulls_true + chunk_nulls_true);
            assert!(!no_stats && reported_nulls.is_some());
        }
        None => {}
    }
    // J3 again (the new chunk holds the non-NULL value x)
    assert!(acc.min_i64.is_some() || acc.unbounded);
    // J2: whatever is reported now covers the old value (if there was one) and the new value
    if seen_nonnull {
        assert!(reported_covers(&acc, y));
    }
    assert!(reported_covers(&acc, x));
    kani::cover!(acc.null_count.is_some() && kx_c18_reported(&acc).0.is_some());
    kani::cover!(no_stats);
    std::mem::forget(chunk);
}

/// an all-NULL chunk (statistics without min/max, null_count == num_values) keeps the bounds
#[kani::proof]
#[kani::unwind(3)]
fn c18_f1_all_null_chunk_keeps_bounds() {
    let mut acc = any_acc();
    let before = kx_c18_reported(&acc);
    let n: i64 = kani::any();
    kani::assume(n >= 0);
    kani::assume(acc.null_count.map_or(true, |c| c.checked_add(n as u64).is_some()));
    let chunk = KChunk { stats: Some(ParquetStatistics::int64(None, None, None, Some(n as u64), false)), num_values: n };
    kx_c18_fold_chunk(&chunk, &mut acc);
    assert!(kx_c18_reported(&acc) == before);
    std::mem::forget(chunk);
}

/// F3a: non_null = total_rows - nulls (never underflows), or total_rows when unknown.
#[kani::proof]
fn c18_f3_non_null() {
    let acc = any_acc();
    let total: usize = kani::any();
    let r = kx_c18_non_null(&acc, total);
    match acc.null_count {
        Some(n) => assert!(r == (total as u64).saturating_sub(n)),
        None => assert!(r == total as u64),
    }
    assert!(r <= total as u64);
}

/// F3b: ndv_est never panics and equals min(non_null, max - min + 1) over the integers:
/// an UPPER bound on the number of distinct non-NULL values, never more than non_null —
/// and nothing more (which is why C03 treats it as an estimate).
#[kani::proof]
fn c18_f3_ndv_est_upper_bound() {
    let (mn, mx) = (opt_i64(), opt_i64());
    let non_null: u64 = kani::any();
    let r = kx_c18_ndv(mn, mx, non_null);
    match (mn, mx) {
        (Some(a), Some(b)) if b >= a => {
            let width = (b as i128) - (a as i128) + 1;
            let want = if (non_null as i128) < width { non_null } else { width as u64 };
            assert!(r == Some(want));
            assert!(want <= non_null);
        }
        _ => assert!(r.is_none()),
    }
}

include!("/verif/kani/gen/playback_storage_parquet.rs");
