// Contract harnesses for src/distributed/membership.rs (property C15).
// The WHOLE `impl Membership` block, the State / PeerRecord / Membership / Member structs and
// the MembershipChange / Discovery enums are copied verbatim on every run and compiled in
// `carr` against carrier types (R6) — with the real String / BTreeMap / HashSet /
// parking_lot::Mutex CBMC needs > 10 min for a single set_members step:
//   String    : a copyable address token (id + &'static str) that derefs to str; ordered and
//               compared like the strings of the address universe
//   BTreeMap  : an association list kept sorted by key (keys, remove, insert, get_mut, iter)
//   HashSet   : a small set in insertion order (collect, difference)
//   Mutex     : an uncontended cell (lock() gives mutable access)
//   now_unix_ms, is_self_address : harness oracles (DNS / getifaddrs are outside any verifier)
// Every harness starts from an ARBITRARY view (any subset of the universe as peers, arbitrary
// records, arbitrary generation), so each is the inductive step: all histories of all
// lengths are covered; what is bounded is the address universe (data independence: the code
// only compares and orders addresses).
#![allow(dead_code, unused_imports, unused_variables)]

pub mod carr {
    use super::super::{NodeId, PeerStatus};

    // ---------------------------------------------------------------- carriers
    /// universe of addresses: index 0 is this node's advertised address, 1..=3 are peers,
    /// 4 is this node under another spelling (`localhost` vs `127.0.0.1`)
    pub const UNIVERSE: [&str; 5] = ["b:1", "a:1", "c:1", "d:2", "localhost:1"];
    #[derive(Clone, Copy, Debug)]
    pub struct KS {
        pub id: u8,
    }
    pub type String = KS;
    impl KS {
        pub fn as_str(&self) -> &'static str {
            UNIVERSE[self.id as usize]
        }
    }
    /// rank of each universe entry in string order: "a:1" < "b:1" < "c:1" < "d:2" < "localhost:1"
    const RANK: [u8; 5] = [1, 0, 2, 3, 4];
    impl PartialEq for KS {
        fn eq(&self, o: &KS) -> bool {
            self.id == o.id
        }
    }
    impl Eq for KS {}
    impl PartialOrd for KS {
        fn partial_cmp(&self, o: &KS) -> Option<std::cmp::Ordering> {
            Some(self.cmp(o))
        }
    }
    impl Ord for KS {
        fn cmp(&self, o: &KS) -> std::cmp::Ordering {
            RANK[self.id as usize].cmp(&RANK[o.id as usize])
        }
    }
    impl std::ops::Deref for KS {
        type Target = str;
        fn deref(&self) -> &str {
            self.as_str()
        }
    }
    impl From<&'static str> for KS {
        fn from(s: &'static str) -> KS {
            let mut i = 0;
            while i < UNIVERSE.len() {
                if std::ptr::eq(UNIVERSE[i].as_ptr(), s.as_ptr()) {
                    return KS { id: i as u8 };
                }
                i += 1;
            }
            panic!("VERIF carrier: string outside the address universe (unsupported)")
        }
    }
    fn id_of(s: &str) -> u8 {
        let mut i = 0;
        while i < UNIVERSE.len() {
            if std::ptr::eq(UNIVERSE[i].as_ptr(), s.as_ptr()) {
                return i as u8;
            }
            i += 1;
        }
        panic!("VERIF carrier: &str outside the address universe (unsupported)")
    }

    /// fixed-capacity vector with the Vec methods the code uses. std's Vec (reallocation with
    /// symbolic lengths) and std's sort are what made these harnesses exceed 20 min; the
    /// sort here is a plain insertion sort (assumed contract on std: sort_by / sort_by_key sort).
    pub const CAP: usize = 5;
    #[derive(Debug, Clone)]
    pub struct Vec<T> {
        items: [Option<T>; CAP],
        len: usize,
    }
    impl<T> Vec<T> {
        pub fn new() -> Self {
            Vec { items: [None, None, None, None, None], len: 0 }
        }
        pub fn push(&mut self, t: T) {
            assert!(self.len < CAP, "VERIF carrier capacity (unsupported)");
            self.items[self.len] = Some(t);
            self.len += 1;
        }
        pub fn len(&self) -> usize {
            self.len
        }
        pub fn is_empty(&self) -> bool {
            self.len == 0
        }
        pub fn iter(&self) -> KIter<'_, T> {
            KIter { v: self, pos: 0 }
        }
        pub fn insert(&mut self, at: usize, t: T) {
            assert!(self.len < CAP && at <= self.len, "VERIF carrier capacity (unsupported)");
            let mut i = self.len;
            while i > at {
                self.items[i] = self.items[i - 1].take();
                i -= 1;
            }
            self.items[at] = Some(t);
            self.len += 1;
        }
        pub fn remove(&mut self, at: usize) -> T {
            assert!(at < self.len);
            let out = self.items[at].take().unwrap();
            let mut i = at;
            while i + 1 < self.len {
                self.items[i] = self.items[i + 1].take();
                i += 1;
            }
            self.len -= 1;
            out
        }
        pub fn sort_by<F: FnMut(&T, &T) -> std::cmp::Ordering>(&mut self, mut f: F) {
            let mut i = 1;
            while i < self.len {
                let mut j = i;
                while j > 0 && f(self.items[j - 1].as_ref().unwrap(), self.items[j].as_ref().unwrap()) == std::cmp::Ordering::Greater {
                    self.items.swap(j - 1, j);
                    j -= 1;
                }
                i += 1;
            }
        }
        pub fn sort_by_key<K: Ord, F: FnMut(&T) -> K>(&mut self, mut f: F) {
            self.sort_by(|a, b| f(a).cmp(&f(b)));
        }
    }
    impl<T> std::ops::Index<usize> for Vec<T> {
        type Output = T;
        fn index(&self, i: usize) -> &T {
            assert!(i < self.len);
            self.items[i].as_ref().unwrap()
        }
    }
    impl<T> std::ops::IndexMut<usize> for Vec<T> {
        fn index_mut(&mut self, i: usize) -> &mut T {
            assert!(i < self.len);
            self.items[i].as_mut().unwrap()
        }
    }
    pub struct KIter<'a, T> {
        v: &'a Vec<T>,
        pos: usize,
    }
    impl<'a, T> Iterator for KIter<'a, T> {
        type Item = &'a T;
        fn next(&mut self) -> Option<&'a T> {
            if self.pos < self.v.len {
                self.pos += 1;
                self.v.items[self.pos - 1].as_ref()
            } else {
                None
            }
        }
    }
    pub struct KIntoIter<T> {
        v: Vec<T>,
        pos: usize,
    }
    impl<T> Iterator for KIntoIter<T> {
        type Item = T;
        fn next(&mut self) -> Option<T> {
            if self.pos < self.v.len {
                self.pos += 1;
                self.v.items[self.pos - 1].take()
            } else {
                None
            }
        }
    }
    impl<T> IntoIterator for Vec<T> {
        type Item = T;
        type IntoIter = KIntoIter<T>;
        fn into_iter(self) -> KIntoIter<T> {
            KIntoIter { v: self, pos: 0 }
        }
    }
    impl<T> FromIterator<T> for Vec<T> {
        fn from_iter<I: IntoIterator<Item = T>>(it: I) -> Self {
            let mut v = Vec::new();
            for t in it {
                v.push(t);
            }
            v
        }
    }

    /// sorted association list with the BTreeMap methods the code uses
    #[derive(Debug)]
    pub struct BTreeMap<K, V> {
        pub items: Vec<(K, V)>,
    }
    impl<V> BTreeMap<KS, V> {
        pub fn new() -> Self {
            BTreeMap { items: Vec::new() }
        }
        pub fn keys(&self) -> impl Iterator<Item = &KS> {
            self.items.iter().map(|(k, _)| k)
        }
        pub fn iter(&self) -> impl Iterator<Item = (&KS, &V)> {
            self.items.iter().map(|(k, v)| (k, v))
        }
        pub fn remove(&mut self, k: &KS) -> Option<V> {
            let mut i = 0;
            while i < self.items.len() {
                if self.items[i].0 == *k {
                    return Some(self.items.remove(i).1);
                }
                i += 1;
            }
            None
        }
        pub fn insert(&mut self, k: KS, v: V) -> Option<V> {
            let mut i = 0;
            while i < self.items.len() {
                if self.items[i].0 == k {
                    return Some(std::mem::replace(&mut self.items[i].1, v));
                }
                if self.items[i].0 > k {
                    break;
                }
                i += 1;
            }
            self.items.insert(i, (k, v));
            None
        }
        pub fn into_keys(self) -> impl Iterator<Item = KS> {
            self.items.into_iter().map(|(k, _)| k)
        }
        pub fn into_values(self) -> impl Iterator<Item = V> {
            self.items.into_iter().map(|(_, v)| v)
        }
        pub fn values(&self) -> impl Iterator<Item = &V> {
            self.items.iter().map(|(_, v)| v)
        }
        pub fn len(&self) -> usize {
            self.items.len()
        }
        pub fn is_empty(&self) -> bool {
            self.items.is_empty()
        }
        pub fn contains_key(&self, k: &KS) -> bool {
            self.items.iter().any(|(x, _)| *x == *k)
        }
        pub fn get(&self, k: &KS) -> Option<&V> {
            let mut i = 0;
            while i < self.items.len() {
                if self.items[i].0 == *k {
                    return Some(&self.items[i].1);
                }
                i += 1;
            }
            None
        }
        pub fn get_mut(&mut self, k: &str) -> Option<&mut V> {
            let id = id_of(k);
            let mut i = 0;
            while i < self.items.len() {
                if self.items[i].0.id == id {
                    return Some(&mut self.items[i].1);
                }
                i += 1;
            }
            None
        }
    }
    impl<V> Default for BTreeMap<KS, V> {
        fn default() -> Self {
            BTreeMap::new()
        }
    }
    impl<V> IntoIterator for BTreeMap<KS, V> {
        type Item = (KS, V);
        type IntoIter = KIntoIter<(KS, V)>;
        fn into_iter(self) -> Self::IntoIter {
            self.items.into_iter()
        }
    }
    /// small set in insertion order
    #[derive(Debug)]
    pub struct HashSet<T> {
        pub items: Vec<T>,
    }
    impl HashSet<KS> {
        pub fn contains(&self, k: &KS) -> bool {
            let mut i = 0;
            while i < self.items.len() {
                if self.items[i] == *k {
                    return true;
                }
                i += 1;
            }
            false
        }
        pub fn difference<'a>(&'a self, other: &'a HashSet<KS>) -> impl Iterator<Item = &'a KS> {
            self.items.iter().filter(move |k| !other.contains(k))
        }
    }
    impl FromIterator<KS> for HashSet<KS> {
        fn from_iter<I: IntoIterator<Item = KS>>(it: I) -> Self {
            let mut s = HashSet { items: Vec::new() };
            for k in it {
                if !s.contains(&k) {
                    s.items.push(k);
                }
            }
            s
        }
    }
    /// uncontended mutex
    #[derive(Debug)]
    pub struct Mutex<T>(std::cell::UnsafeCell<T>);
    pub struct Guard<'a, T>(&'a mut T);
    impl<T> Mutex<T> {
        pub fn new(t: T) -> Self {
            Mutex(std::cell::UnsafeCell::new(t))
        }
        pub fn lock(&self) -> Guard<'_, T> {
            Guard(unsafe { &mut *self.0.get() })
        }
    }
    impl<'a, T> std::ops::Deref for Guard<'a, T> {
        type Target = T;
        fn deref(&self) -> &T {
            self.0
        }
    }
    impl<'a, T> std::ops::DerefMut for Guard<'a, T> {
        fn deref_mut(&mut self) -> &mut T {
            self.0
        }
    }
    pub fn now_unix_ms() -> u64 {
        kani::any()
    }
    /// oracle for DNS / interface based self-identification: byte-identical is self (rule 1 of
    /// the real function), entry 4 is this node under another spelling, everything else —
    /// including a port-only difference ("d:2") — is not self
    pub fn is_self_address(candidate: &str, self_address: &str) -> bool {
        let c = id_of(candidate);
        c == id_of(self_address) || c == 4
    }

    // ---------------------------------------------------------------- the real code
    include!("/verif/kani/gen/kx_c15_member.rs");
    include!("/verif/kani/gen/kx_c15_discovery.rs");
    include!("/verif/kani/gen/kx_c15_change.rs");
    include!("/verif/kani/gen/kx_c15_record.rs");
    include!("/verif/kani/gen/kx_c15_record_impl.rs");
    include!("/verif/kani/gen/kx_c15_state.rs");
    include!("/verif/kani/gen/kx_c15_membership.rs");
    include!("/verif/kani/gen/kx_c15_impl.rs");

    // ---------------------------------------------------------------- harness helpers
    const SELF: KS = KS { id: 0 };
    fn any_status() -> PeerStatus {
        let k: u8 = kani::any();
        kani::assume(k < 3);
        match k {
            0 => PeerStatus::Unknown,
            1 => PeerStatus::Up,
            _ => PeerStatus::Down,
        }
    }
    fn any_opt_ks() -> Option<KS> {
        if kani::any() { Some(KS { id: 1 }) } else { None }
    }
    fn any_record() -> PeerRecord {
        PeerRecord {
            node_id: if kani::any() { Some(kani::any()) } else { None },
            flight: any_opt_ks(),
            status: any_status(),
            last_seen_unix_ms: if kani::any() { Some(kani::any()) } else { None },
            last_error: any_opt_ks(),
            consecutive_failures: kani::any(),
        }
    }
    fn same_record(a: &PeerRecord, b: &PeerRecord) -> bool {
        a.node_id == b.node_id
            && a.flight == b.flight
            && a.status == b.status
            && a.last_seen_unix_ms == b.last_seen_unix_ms
            && a.last_error == b.last_error
            && a.consecutive_failures == b.consecutive_failures
    }
    /// an arbitrary well-formed view: any subset of peers {1,2,3} (never self: invariant I1),
    /// arbitrary records, arbitrary generation and resolved flag
    fn any_view() -> (Membership, [bool; 4], [Option<PeerRecord>; 4]) {
        any_view_upto(4)
    }
    /// same with peers drawn from ids 1..top only
    fn any_view_upto(top: u8) -> (Membership, [bool; 4], [Option<PeerRecord>; 4]) {
        let m = Membership::new(7, SELF, Discovery::Static(Vec::new()));
        let mut present = [false; 4];
        let mut recs: [Option<PeerRecord>; 4] = [None, None, None, None];
        {
            let mut st = m.state.lock();
            // insert in key order: ids 1 ("a:1"), 2 ("c:1"), 3 ("d:2") are ascending by rank
            let mut id = 1u8;
            while id < top {
                if kani::any() {
                    let r = any_record();
                    recs[id as usize] = Some(r.clone());
                    st.peers.items.push((KS { id }, r));
                    present[id as usize] = true;
                }
                id += 1;
            }
            st.generation = kani::any();
            kani::assume(st.generation < u64::MAX - 2);
            st.resolved = kani::any();
            st.last_resolve_error = any_opt_ks();
        }
        (m, present, recs)
    }
    fn peer_present(m: &Membership, id: u8) -> bool {
        let st = m.state.lock();
        let mut i = 0;
        let mut found = false;
        while i < st.peers.items.len() {
            if st.peers.items[i].0.id == id {
                found = true;
            }
            i += 1;
        }
        found
    }
    fn peer_record(m: &Membership, id: u8) -> Option<PeerRecord> {
        let st = m.state.lock();
        let mut i = 0;
        while i < st.peers.items.len() {
            if st.peers.items[i].0.id == id {
                return Some(st.peers.items[i].1.clone());
            }
            i += 1;
        }
        None
    }
    /// I1 + I2: peers never contain self; members() is strictly increasing by address, lists
    /// self exactly once with is_self, every other entry is a peer with !is_self, and the
    /// address set is peers + self
    fn check_view(m: &Membership) {
        assert!(!peer_present(m, 0) && !peer_present(m, 4));
        let mem = m.members();
        let mut selfs = 0;
        let mut i = 0;
        while i < mem.len() {
            if i > 0 {
                assert!(mem[i - 1].address < mem[i].address);
            }
            if mem[i].is_self {
                selfs += 1;
                assert!(mem[i].address == SELF);
            } else {
                assert!(mem[i].address != SELF);
                assert!(peer_present(m, mem[i].address.id));
            }
            i += 1;
        }
        assert!(selfs == 1);
        let npeers = m.state.lock().peers.items.len();
        assert!(mem.len() == npeers + 1);
        let pa = m.peer_addresses();
        assert!(pa.len() == npeers);
    }

    /// well-formedness of the stored view (what `any_view` assumes, so what every step must
    /// re-establish): peers never contain self (I1) and the map is strictly sorted by address
    fn check_wf(m: &Membership) {
        let st = m.state.lock();
        let mut i = 0;
        while i < st.peers.items.len() {
            let id = st.peers.items[i].0.id;
            assert!(id != 0 && id != 4);
            if i > 0 {
                assert!(st.peers.items[i - 1].0 < st.peers.items[i].0);
            }
            i += 1;
        }
    }

    // ---------------------------------------------------------------- harnesses
    #[kani::proof]
    #[kani::unwind(8)]
    fn c15_new_view() {
        let m = Membership::new(7, SELF, Discovery::Static(Vec::new()));
        assert!(m.generation() == 0 && !m.resolved() && m.peer_addresses().is_empty());
        check_view(&m);
    }

    /// members() / peer_addresses() on an arbitrary well-formed view (the step harnesses
    /// re-establish well-formedness, so this covers every reachable view)
    #[kani::proof]
    #[kani::unwind(8)]
    fn c15_members_view() {
        let (m, _present, _recs) = any_view();
        check_view(&m);
    }

    /// set_members(A): keys' = {a in A | not self}; surviving peers keep their record field by
    /// field; generation' = generation + [keys changed]; resolved' = true; error cleared;
    /// returned changes = the symmetric difference, Removed before Added, each sorted.
    /// Incoming list: any sequence of <= 3 entries over the whole universe (self, self under
    /// another spelling, peers, duplicates).
    fn set_members_step(top: u8, max_incoming: usize) {
        let (m, present, recs) = any_view_upto(top);
        let g0 = m.generation();
        let n: usize = kani::any();
        kani::assume(n <= max_incoming);
        let mut incoming: Vec<KS> = Vec::new();
        let mut want = [false; 5];
        let mut i = 0;
        while i < n {
            let id: u8 = kani::any();
            kani::assume(id < 5 && (id < top || id == 4));
            incoming.push(KS { id });
            want[id as usize] = true;
            i += 1;
        }
        let changes = m.set_members(incoming);
        check_wf(&m);
        let mut changed = false;
        let mut id = 1u8;
        while id < 4 {
            let now = peer_present(&m, id);
            assert!(now == want[id as usize]); // exactly the non-self incoming addresses
            if now != present[id as usize] {
                changed = true;
            }
            if now && present[id as usize] {
                // re-resolving keeps every surviving peer's probe state
                assert!(same_record(&peer_record(&m, id).unwrap(), recs[id as usize].as_ref().unwrap()));
            }
            if now && !present[id as usize] {
                let r = peer_record(&m, id).unwrap();
                assert!(r.status == PeerStatus::Unknown && r.consecutive_failures == 0 && r.node_id.is_none());
            }
            id += 1;
        }
        // generation never decreases and advances exactly on a change of the member set
        assert!(m.generation() == g0 + changed as u64);
        assert!(m.resolved());
        assert!(m.last_resolve_error().is_none());
        // the change log is the symmetric difference, removals first, each group sorted
        let mut k = 0;
        let mut seen_added = false;
        while k < changes.len() {
            match &changes[k] {
                MembershipChange::Removed(a) => {
                    assert!(!seen_added);
                    assert!(present[a.id as usize] && !want[a.id as usize]);
                }
                MembershipChange::Added(a) => {
                    seen_added = true;
                    assert!(!present[a.id as usize] && want[a.id as usize] && a.id != 0 && a.id != 4);
                }
            }
            if k > 0 {
                match (&changes[k - 1], &changes[k]) {
                    (MembershipChange::Removed(x), MembershipChange::Removed(y)) => assert!(x < y),
                    (MembershipChange::Added(x), MembershipChange::Added(y)) => assert!(x < y),
                    _ => {}
                }
            }
            k += 1;
        }
        let mut cnt = 0;
        let mut id2 = 1u8;
        while id2 < 4 {
            if present[id2 as usize] != want[id2 as usize] {
                cnt += 1;
            }
            id2 += 1;
        }
        assert!(changes.len() == cnt);
        kani::cover!(changed && changes.len() >= 1);
        kani::cover!(!changed && n > 0);
    }

    /// universe self + 1 peer + self-under-another-spelling, incoming list of <= 2 (quick tier)
    #[kani::proof]
    #[kani::unwind(5)]
    fn c15_set_members_step_tiny() {
        set_members_step(2, 2);
    }
    /// universe self + 2 peers + self-under-another-spelling, incoming list of <= 2
    #[kani::proof]
    #[kani::unwind(6)]
    fn c15_set_members_step_small() {
        set_members_step(3, 2);
    }
    /// universe self + 3 peers (one differing from self only by port) + self-under-another-spelling,
    /// incoming list of <= 3 (thorough tier: ~17 min)
    #[kani::proof]
    #[kani::unwind(7)]
    fn c15_set_members_step() {
        set_members_step(4, 3);
    }

    /// record_up / record_down: the member set is unchanged, only the probed record changes,
    /// generation advances exactly when the status crosses Up, an unknown address is a no-op.
    #[kani::proof]
    #[kani::unwind(8)]
    fn c15_record_probe_step() {
        let (m, present, recs) = any_view();
        let g0 = m.generation();
        let id: u8 = kani::any();
        kani::assume(id < 4);
        let addr = UNIVERSE[id as usize];
        let up: bool = kani::any();
        if up {
            m.record_up(addr, if kani::any() { Some(kani::any()) } else { None }, any_opt_ks());
        } else {
            m.record_down(addr, KS { id: 2 });
        }
        check_wf(&m);
        let mut k = 1u8;
        while k < 4 {
            assert!(peer_present(&m, k) == present[k as usize]);
            if present[k as usize] && k != id {
                assert!(same_record(&peer_record(&m, k).unwrap(), recs[k as usize].as_ref().unwrap()));
            }
            k += 1;
        }
        if id >= 1 && present[id as usize] {
            let was_up = recs[id as usize].as_ref().unwrap().status == PeerStatus::Up;
            let r = peer_record(&m, id).unwrap();
            if up {
                assert!(r.status == PeerStatus::Up && r.consecutive_failures == 0 && r.last_error.is_none());
                assert!(m.generation() == g0 + (!was_up) as u64);
            } else {
                assert!(r.status == PeerStatus::Down && r.last_error.is_some());
                assert!(m.generation() == g0 + was_up as u64);
            }
        } else {
            assert!(m.generation() == g0);
        }
    }

    /// a resolve error never removes a member and changes neither generation nor `resolved`
    #[kani::proof]
    #[kani::unwind(8)]
    fn c15_record_resolve_error_step() {
        let (m, present, recs) = any_view();
        let (g0, r0) = (m.generation(), m.resolved());
        m.record_resolve_error(KS { id: 3 });
        check_wf(&m);
        let mut k = 1u8;
        while k < 4 {
            assert!(peer_present(&m, k) == present[k as usize]);
            if present[k as usize] {
                assert!(same_record(&peer_record(&m, k).unwrap(), recs[k as usize].as_ref().unwrap()));
            }
            k += 1;
        }
        assert!(m.generation() == g0 && m.resolved() == r0);
        assert!(m.last_resolve_error().is_some());
    }
}

include!("/verif/kani/gen/playback_distributed_membership.rs");
