// Contract harnesses for gravitino::dechunk (src/metastore/gravitino.rs), property C41.
// Lane B: CBMC executes the real function (std's windows/position, from_utf8, trim,
// from_str_radix) on STRUCTURED symbolic inputs: the framing is laid out by the harness,
// the payload bytes / digits / stray bytes are symbolic. Bounds are stated per harness.
#![allow(dead_code, unused_imports, unused_variables)]
use super::*;

// ---- std string functions as cheap byte-level models (assumed contracts on std, listed in
// the evidence). They agree with std on ASCII input; any non-ASCII byte reaching them fails
// the harness ("unsupported"), it is never assumed away.
fn stub_from_utf8(b: &[u8]) -> std::result::Result<&str, std::str::Utf8Error> {
    let mut i = 0;
    while i < b.len() {
        if b[i] >= 0x80 {
            panic!("VERIF stub: non-ASCII byte in from_utf8 (unsupported)");
        }
        i += 1;
    }
    Ok(unsafe { std::str::from_utf8_unchecked(b) })
}
fn is_ascii_ws(c: u8) -> bool {
    c == b' ' || (c >= 9 && c <= 13)
}
fn stub_trim(s: &str) -> &str {
    let b = s.as_bytes();
    let mut lo = 0;
    while lo < b.len() && is_ascii_ws(b[lo]) {
        lo += 1;
    }
    let mut hi = b.len();
    while hi > lo && is_ascii_ws(b[hi - 1]) {
        hi -= 1;
    }
    unsafe { std::str::from_utf8_unchecked(&b[lo..hi]) }
}
fn parse_err() -> std::num::ParseIntError {
    match "".parse::<u8>() {
        Err(e) => e,
        Ok(_) => unreachable!(),
    }
}
/// usize::from_str_radix(s, 16) on ASCII: optional '+', at least one hex digit, overflow is an error
fn stub_from_str_radix(s: &str, radix: u32) -> std::result::Result<usize, std::num::ParseIntError> {
    assert!(radix == 16);
    let b = s.as_bytes();
    let mut i = 0;
    if b.len() > 0 && b[0] == b'+' {
        i = 1;
    }
    if i >= b.len() {
        return Err(parse_err());
    }
    let mut v: usize = 0;
    while i < b.len() {
        let c = b[i];
        let d = if c >= b'0' && c <= b'9' {
            c - b'0'
        } else if c >= b'a' && c <= b'f' {
            c - b'a' + 10
        } else if c >= b'A' && c <= b'F' {
            c - b'A' + 10
        } else {
            return Err(parse_err());
        };
        v = match v.checked_mul(16).and_then(|x| x.checked_add(d as usize)) {
            Some(x) => x,
            None => return Err(parse_err()),
        };
        i += 1;
    }
    Ok(v)
}

fn hex_digit(n: u8) -> u8 {
    if n < 10 { b'0' + n } else { b'a' + (n - 10) }
}

/// (b) one chunk: dechunk(size CRLF body CRLF 0 CRLF CRLF) == Some(body). B(1 byte).
#[kani::proof]
#[kani::stub(std::str::from_utf8, stub_from_utf8)]
#[kani::stub(str::trim, stub_trim)]
#[kani::stub(usize::from_str_radix, stub_from_str_radix)]
#[kani::unwind(12)]
fn c41_b_roundtrip_one_chunk_1() {
    let x: u8 = kani::any();
    let wire = [b'1', b'\r', b'\n', x, b'\r', b'\n', b'0', b'\r', b'\n', b'\r', b'\n'];
    let out = dechunk(&wire);
    assert!(out.is_some());
    let out = out.unwrap();
    assert!(out.len() == 1 && out[0] == x);
}
/// (b) a 3-byte chunk whose size line has a leading zero and trailing blank ("03 ").
#[kani::proof]
#[kani::stub(std::str::from_utf8, stub_from_utf8)]
#[kani::stub(str::trim, stub_trim)]
#[kani::stub(usize::from_str_radix, stub_from_str_radix)]
#[kani::unwind(16)]
fn c41_b_roundtrip_one_chunk_3_padded_size() {
    let (x, y, z): (u8, u8, u8) = (kani::any(), kani::any(), kani::any());
    let wire = [b'0', b'3', b' ', b'\r', b'\n', x, y, z, b'\r', b'\n', b'0', b'\r', b'\n', b'\r', b'\n'];
    let out = dechunk(&wire);
    assert!(out.is_some());
    let out = out.unwrap();
    assert!(out.len() == 3 && out[0] == x && out[1] == y && out[2] == z);
}

/// (b) two chunks of one byte each reassemble in order. B(1+1 bytes).
#[kani::proof]
#[kani::stub(std::str::from_utf8, stub_from_utf8)]
#[kani::stub(str::trim, stub_trim)]
#[kani::stub(usize::from_str_radix, stub_from_str_radix)]
#[kani::unwind(12)]
fn c41_b_roundtrip_two_chunks() {
    let (x, y): (u8, u8) = (kani::any(), kani::any());
    let wire = [b'1', b'\r', b'\n', x, b'\r', b'\n', b'1', b'\r', b'\n', y, b'\r', b'\n', b'0', b'\r', b'\n', b'\r', b'\n'];
    let out = dechunk(&wire);
    assert!(out.is_some());
    let out = out.unwrap();
    assert!(out.len() == 2 && out[0] == x && out[1] == y);
}

/// (b) the empty body: just the last-chunk.
#[kani::proof]
#[kani::stub(std::str::from_utf8, stub_from_utf8)]
#[kani::stub(str::trim, stub_trim)]
#[kani::stub(usize::from_str_radix, stub_from_str_radix)]
#[kani::unwind(12)]
fn c41_b_empty_body() {
    let wire = *b"0\r\n\r\n";
    let out = dechunk(&wire);
    assert!(out.is_some() && out.unwrap().is_empty());
}

/// (b) a chunk extension (RFC 9112 7.1.1: `chunk-size [;ext]`) does not change the body.
#[kani::proof]
#[kani::stub(std::str::from_utf8, stub_from_utf8)]
#[kani::stub(str::trim, stub_trim)]
#[kani::stub(usize::from_str_radix, stub_from_str_radix)]
#[kani::unwind(14)]
fn c41_b_chunk_extension_ignored() {
    let x: u8 = kani::any();
    let e: u8 = kani::any();
    kani::assume(e >= b'a' && e <= b'z');
    let wire = [b'1', b';', e, b'\r', b'\n', x, b'\r', b'\n', b'0', b'\r', b'\n', b'\r', b'\n'];
    let out = dechunk(&wire);
    assert!(out.is_some());
    let out = out.unwrap();
    assert!(out.len() == 1 && out[0] == x);
}

/// quick-tier variant: fixed extension text `;x=1`, symbolic payload byte
#[kani::proof]
#[kani::stub(std::str::from_utf8, stub_from_utf8)]
#[kani::stub(str::trim, stub_trim)]
#[kani::stub(usize::from_str_radix, stub_from_str_radix)]
#[kani::unwind(16)]
fn c41_b_chunk_extension_fixed_text() {
    let x: u8 = kani::any();
    let wire = [b'1', b';', b'x', b'=', b'1', b'\r', b'\n', x, b'\r', b'\n', b'0', b'\r', b'\n', b'\r', b'\n'];
    let out = dechunk(&wire);
    assert!(out.is_some());
    let out = out.unwrap();
    assert!(out.len() == 1 && out[0] == x);
}
/// quick-tier variant: size line "zz" is not hexadecimal
#[kani::proof]
#[kani::stub(std::str::from_utf8, stub_from_utf8)]
#[kani::stub(str::trim, stub_trim)]
#[kani::stub(usize::from_str_radix, stub_from_str_radix)]
#[kani::unwind(12)]
fn c41_b_non_hex_size_fixed_text() {
    let x: u8 = kani::any();
    let wire = [b'z', b'z', b'\r', b'\n', x, b'\r', b'\n', b'0', b'\r', b'\n', b'\r', b'\n'];
    assert!(dechunk(&wire).is_none());
}

/// (c) chunk data not followed by CRLF is malformed framing: rejected.
#[kani::proof]
#[kani::stub(std::str::from_utf8, stub_from_utf8)]
#[kani::stub(str::trim, stub_trim)]
#[kani::stub(usize::from_str_radix, stub_from_str_radix)]
#[kani::unwind(14)]
fn c41_b_missing_crlf_after_data_rejected() {
    let x: u8 = kani::any();
    let (p, q): (u8, u8) = (kani::any(), kani::any());
    kani::assume(!(p == b'\r' && q == b'\n'));
    let wire = [b'1', b'\r', b'\n', x, p, q, b'0', b'\r', b'\n', b'\r', b'\n'];
    assert!(dechunk(&wire).is_none());
}

/// (c) declared size (5) larger than the data present (1 byte): rejected.
#[kani::proof]
#[kani::stub(std::str::from_utf8, stub_from_utf8)]
#[kani::stub(str::trim, stub_trim)]
#[kani::stub(usize::from_str_radix, stub_from_str_radix)]
#[kani::unwind(12)]
fn c41_b_short_data_rejected() {
    let x: u8 = kani::any();
    let wire = [b'5', b'\r', b'\n', x, b'\r', b'\n'];
    assert!(dechunk(&wire).is_none());
}

/// (c) a size line that is not hexadecimal: rejected.
#[kani::proof]
#[kani::stub(std::str::from_utf8, stub_from_utf8)]
#[kani::stub(str::trim, stub_trim)]
#[kani::stub(usize::from_str_radix, stub_from_str_radix)]
#[kani::unwind(12)]
fn c41_b_non_hex_size_rejected() {
    let g: u8 = kani::any();
    kani::assume(g >= b'g' && g <= b'z');
    let wire = [g, b'\r', b'\n', b'A', b'\r', b'\n', b'0', b'\r', b'\n', b'\r', b'\n'];
    assert!(dechunk(&wire).is_none());
}

/// (c) missing last-chunk: input ends after a complete data chunk: rejected.
#[kani::proof]
#[kani::stub(std::str::from_utf8, stub_from_utf8)]
#[kani::stub(str::trim, stub_trim)]
#[kani::stub(usize::from_str_radix, stub_from_str_radix)]
#[kani::unwind(12)]
fn c41_b_missing_last_chunk_rejected() {
    let x: u8 = kani::any();
    let wire = [b'1', b'\r', b'\n', x, b'\r', b'\n'];
    assert!(dechunk(&wire).is_none());
}

/// (a) a huge hex size must not panic (size + 2 overflow) and is rejected.
#[kani::proof]
#[kani::stub(std::str::from_utf8, stub_from_utf8)]
#[kani::stub(str::trim, stub_trim)]
#[kani::stub(usize::from_str_radix, stub_from_str_radix)]
#[kani::unwind(22)]
fn c41_b_huge_size_no_panic() {
    let wire = *b"ffffffffffffffff\r\nAB\r\n0\r\n\r\n";
    assert!(dechunk(&wire).is_none());
}
#[kani::proof]
#[kani::stub(std::str::from_utf8, stub_from_utf8)]
#[kani::stub(str::trim, stub_trim)]
#[kani::stub(usize::from_str_radix, stub_from_str_radix)]
#[kani::unwind(22)]
fn c41_b_huge_size_minus_one_no_panic() {
    let wire = *b"fffffffffffffffe\r\nAB\r\n0\r\n\r\n";
    assert!(dechunk(&wire).is_none());
}

/// (a) no input of 3 arbitrary ASCII bytes makes the decoder panic.
#[kani::proof]
#[kani::stub(std::str::from_utf8, stub_from_utf8)]
#[kani::stub(str::trim, stub_trim)]
#[kani::stub(usize::from_str_radix, stub_from_str_radix)]
#[kani::unwind(8)]
fn c41_b_arbitrary_bytes_no_panic() {
    let b: [u8; 3] = kani::any();
    kani::assume(b[0] < 0x80 && b[1] < 0x80 && b[2] < 0x80);
    let _ = dechunk(&b);
}

include!("/verif/kani/gen/playback_metastore_gravitino.rs");
